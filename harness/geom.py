"""L-geo: geometric matcher instances (grid maps + traces on a quarter grid) for the real SimpleMatcher /
DistanceMatcher, their concretisations (relabelling, listing order, axis swap, scaling, translation, sphere
placement, time stamps, DEBUG logging, backend) and the recorder that turns a run into the trace format of
spec/LatticeTrace.tla / spec/EmbedTrace.tla (fixed point, scale FX)."""
import contextlib, io, logging, math, os, random
from . import common
from .geo import tangent_place, R_EARTH, ANCHORS

FX = 10000          # fixed-point scale of log-probabilities and distances recorded from the real matchers
BIG = 10 ** 8


def fx(v):
    if v is None:
        return -BIG
    if isinstance(v, int):
        v = float(v)
    if v != v:
        return -BIG
    if v == math.inf:
        return BIG
    if v == -math.inf:
        return -BIG
    r = int(round(v * FX))
    if abs(r) >= BIG:          # saturate: an absurd value must surface as a mismatch, not as a machinery failure
        return BIG - 1 if r > 0 else -(BIG - 1)
    return r


# ------------------------------------------------------------------ instances
def gen_instance(rng, maxn=6, maxT=5, G=3, family=None, p_linked=0.25):
    """abstract geometric instance: nodes on grid points, directed edges, observations on a quarter grid.
    Families: 'random', 'degenerate' (observations exactly on nodes / edges, repeated, collinear; zero-length
    roads), 'street' (a longer bidirectional polyline with side roads)."""
    family = family or rng.choice(['random', 'random', 'degenerate', 'street'])
    if family == 'fork':
        # a symmetric fork: the observation after the junction is exactly equidistant from both branches (an exact
        # tie), the rest of the trace follows one of them
        coord = {1: (1, 0), 2: (1, 1), 3: (0, 2), 4: (2, 2), 5: (0, 3), 6: (2, 3)}
        edges = [(1, 2), (2, 3), (2, 4), (3, 5), (4, 6)]
        if rng.random() < 0.4:
            edges += [(2, 1), (3, 2), (4, 2)]
        side = rng.choice([0, 2])
        path = [(1.0, 0.25), (1.0, 1.5), (float(side) + rng.choice([0.0, 0.25 if side == 0 else -0.25]), 2.25), (float(side), 2.75)]
        path = path[:rng.randint(3, 4)]
        if rng.random() < 0.5:      # transpose
            coord = {k: (v[1], v[0]) for k, v in coord.items()}
            path = [(p[1], p[0]) for p in path]
        nodes = list(coord)
        rng.shuffle(edges)
        return {'nodes': nodes, 'coord': {k: list(v) for k, v in coord.items()}, 'edges': [list(e) for e in edges],
                'path': [list(p) for p in path], 'family': family, 'G': 3, 'linked': []}
    n = rng.randint(2, maxn)
    pts = rng.sample([(y, x) for y in range(G + 1) for x in range(G + 1)], n)
    nodes = list(range(1, n + 1))
    coord = {i + 1: pts[i] for i in range(n)}
    edges = []
    if family == 'street':
        order = nodes[:]
        rng.shuffle(order)
        for a, b in zip(order, order[1:]):
            edges += [(a, b), (b, a)]
        for _ in range(rng.randint(0, 2)):
            a, b = rng.sample(nodes, 2)
            if (a, b) not in edges:
                edges.append((a, b))
    else:
        p = rng.choice([0.3, 0.45, 0.6])
        for a in nodes:
            for b in nodes:
                if a != b and rng.random() < p:
                    if (a, b) not in edges:
                        edges.append((a, b))
                    if rng.random() < 0.6 and (b, a) not in edges:
                        edges.append((b, a))
        if not edges:
            a, b = rng.sample(nodes, 2)
            edges = [(a, b), (b, a)]
    if family == 'degenerate' and rng.random() < 0.4 and n < 8:
        # a zero-length road: a second node at the same location
        a = rng.choice(nodes)
        z = n + 1
        nodes.append(z)
        coord[z] = coord[a]
        edges += [(a, z), (z, a)]
    T = rng.randint(1, maxT)
    path = []
    for t in range(T):
        if family == 'degenerate':
            k = rng.random()
            if k < 0.35:                       # exactly on a node
                path.append(tuple(float(v) for v in coord[rng.choice(nodes)]))
            elif k < 0.7 and edges:            # exactly on an edge (midpoint or quarter point)
                a, b = rng.choice(edges)
                f = rng.choice([0.25, 0.5, 0.75])
                path.append((coord[a][0] + f * (coord[b][0] - coord[a][0]), coord[a][1] + f * (coord[b][1] - coord[a][1])))
            elif k < 0.85 and path:            # repeated observation
                path.append(path[-1])
            else:
                path.append((rng.randint(0, 4 * G) / 4.0, rng.randint(0, 4 * G) / 4.0))
        else:
            if path and rng.random() < 0.7:    # a plausible next position: a short step
                y = min(max(path[-1][0] + rng.randint(-4, 4) / 4.0, -0.5), G + 0.5)
                x = min(max(path[-1][1] + rng.randint(-4, 4) / 4.0, -0.5), G + 0.5)
                path.append((y, x))
            else:
                path.append((rng.randint(-2, 4 * G + 2) / 4.0, rng.randint(-2, 4 * G + 2) / 4.0))
    linked = []
    if family in ('street', 'random') and len(edges) >= 4 and rng.random() < p_linked:
        # linked ("parallel") edges, as connect_parallelroads would produce them: pairs of edges without a common node
        cand = [(e, f) for e in edges for f in edges if len({e[0], e[1], f[0], f[1]}) == 4]
        if p_linked > 0.5:
            # linked-edge heavy families: prefer a linked edge that shares its end node with another, unlinked, edge
            # (an answer for one edge must not leak into the answer for its sibling)
            sib = [(e, f) for e, f in cand if any(g[1] == e[1] and g[0] != e[0] for g in edges)]
            cand = sib or cand
        for e, f in rng.sample(cand, min(len(cand), rng.randint(1, 3))):
            linked.append([list(e), list(f)])
        if p_linked > 0.5 and linked and rng.random() < 0.5:
            # a trace that runs along a SIBLING of the linked edge (same end node, not linked itself) and then along the
            # linked-to edge: the map offers the hop e -> f, it does not offer g -> f
            e, f = linked[0]
            sibs = [g for g in edges if g[1] == e[1] and g[0] != e[0] and [list(g), f] not in linked]
            if sibs:
                g = rng.choice(sibs)
                mid = lambda a: ((coord[a[0]][0] + coord[a[1]][0]) / 2.0, (coord[a[0]][1] + coord[a[1]][1]) / 2.0)
                jit = lambda q: (q[0] + rng.randint(-1, 1) / 4.0, q[1] + rng.randint(-1, 1) / 4.0)
                path = ([jit(mid(g))] + ([jit(tuple(coord[g[1]]))] if rng.random() < 0.7 else []) + [jit(mid(f))]
                        + ([jit(tuple(coord[f[1]]))] if rng.random() < 0.5 else []))
                family = family + '+linked-sibling'
    pre = []
    if rng.random() < 0.15:
        # the matcher object is used for ANOTHER trace first (often one that stops early: its later points are far away);
        # nothing of that call may leak into the calls that are validated
        pre = [[rng.randint(0, 4 * G) / 4.0, rng.randint(0, 4 * G) / 4.0] for _ in range(rng.randint(1, 2))]
        pre += [[rng.choice([-40.0, 60.0, G / 2.0]), rng.choice([-50.0, 70.0, G / 2.0])] for _ in range(rng.randint(1, 2))]
        pre += [[rng.randint(0, 4 * G) / 4.0, rng.randint(0, 4 * G) / 4.0] for _ in range(rng.randint(0, 2))]
    return {'nodes': nodes, 'coord': {k: list(v) for k, v in coord.items()}, 'edges': [list(e) for e in edges],
            'path': [list(p) for p in path], 'family': family, 'G': G, 'linked': linked, 'pretrace': pre}


def gen_config(rng, allow=('ne', 'W', 'nodes', 'cuts', 'goback'), cls=None):
    # the three matcher families of the library; Newson-Krumm (exponential transition term, 1 - CDF emission term) shares
    # the search of the base class, so every table-free clause applies to it unchanged
    cls = cls or rng.choice(['simple', 'distance', 'simple', 'distance', 'newsonkrumm'])
    only_edges = True if (cls in ('distance', 'newsonkrumm') or 'nodes' not in allow) else rng.random() < 0.6
    if 'cuts' in allow and rng.random() < 0.45:
        allow = tuple(a for a in allow if a != 'cuts')      # about half of the configurations have no cut-off at all
    noise = rng.choice([0.5, 1.0, 2.0, 0.5, 1.0, 2.0, 5.0, 25.0, 0.3])
    noise_ne = rng.choice([None, None, 1.0, 3.0])
    if rng.random() < 0.3:        # "every noise value": any integer up to 59 (some round badly in closed-form-free code)
        noise = float(rng.randint(1, 59))
    if rng.random() < 0.3:
        noise_ne = float(rng.randint(1, 59))
    cf = {'cls': cls, 'obs_noise': noise, 'obs_noise_ne': noise_ne,
          'max_dist': rng.choice([None, 1.0, 2.0, 0.75, 3.0]) if 'cuts' in allow else None,
          'max_dist_init': rng.choice([None, 1.0, 3.0]) if 'cuts' in allow else None,
          'min_prob_norm': rng.choice([None, None, 0.5, 0.1, 0.01]) if 'cuts' in allow else None,
          'ne': ('ne' in allow and rng.random() < 0.5), 'only_edges': only_edges,
          'avoid_goingback': ('goback' in allow and rng.random() < 0.5),
          'W': (rng.choice([0, 0, 1, 2, 3]) if 'W' in allow else 0),
          'dist_noise': rng.choice([None, 0.5, 2.0]) if cls != 'simple' else None,          # Newson-Krumm: beta
          'dist_noise_ne': rng.choice([None, None, 1.0, 3.0]) if cls != 'simple' else None,  # Newson-Krumm: beta_ne
          'restrained_ne': (rng.random() < 0.7) if cls == 'distance' else None,
          'ne_max': None}        # non_emitting_states_maxnb (None: the library's default of 100); set by the callers
    if cls == 'newsonkrumm':
        cf['avoid_goingback'] = False        # the family has no going-back term
        if cf['dist_noise'] is None:
            cf['dist_noise'] = 0.25          # an exactly representable stand-in for the default beta = 1/6
    return cf


# ------------------------------------------------------------------ concretisations
class Conc:
    """how an abstract instance is handed to the library"""

    def __init__(self, relabel=None, order=None, nbr_order=None, swap=False, k=0, off=(0.0, 0.0), latlon=None,
                 triples=False, debug=False, backend='inmem', strlabels=False):
        self.relabel, self.order, self.nbr_order = relabel, order, nbr_order
        self.swap, self.k, self.off, self.latlon = swap, k, tuple(off), latlon
        self.triples, self.debug, self.backend, self.strlabels = triples, debug, backend, strlabels
        self.s = 2.0 ** k if latlon is None else float(latlon['s'])

    def desc(self):
        return {'relabel': self.relabel, 'order': self.order, 'nbr_order': self.nbr_order, 'swap': self.swap, 'k': self.k,
                'off': list(self.off), 'latlon': self.latlon, 'triples': self.triples, 'debug': self.debug,
                'backend': self.backend, 'strlabels': self.strlabels}

    @staticmethod
    def from_desc(d):
        d = dict(d)
        if d.get('relabel'):
            d['relabel'] = {int(k): v for k, v in d['relabel'].items()}
        return Conc(**d)

    def lab(self, n):
        v = self.relabel[n] if self.relabel else n
        return f'n{v}' if self.strlabels else v

    def unlab(self, l):
        if self.strlabels:
            l = int(l[1:])
        if self.relabel:
            inv = getattr(self, '_inv', None)
            if inv is None:
                inv = self._inv = {v: k for k, v in self.relabel.items()}
            return inv[l]
        return l

    def loc(self, p):
        y, x = (p[1], p[0]) if self.swap else (p[0], p[1])
        if self.latlon is not None:
            return tangent_place((y, x), self.s, tuple(self.latlon['anchor']))
        return (self.off[0] + y * self.s, self.off[1] + x * self.s)

    def dscale(self, v):
        """distance parameters are scaled with the coordinates"""
        return None if v is None else v * self.s


def build_map(inst, conc, d=None):
    common.import_repo()
    from leuvenmapmatching.map.inmem import InMemMap
    nodes = list(inst['nodes'])
    if conc.order:
        nodes = [nodes[i] for i in conc.order]
    adj = {n: [] for n in inst['nodes']}
    for a, b in inst['edges']:
        adj[a].append(b)
    if conc.nbr_order == 'rev':
        adj = {n: list(reversed(v)) for n, v in adj.items()}
    elif conc.nbr_order == 'sorted':
        adj = {n: sorted(v) for n, v in adj.items()}
    latlon = conc.latlon is not None
    if conc.backend == 'inmem':
        le = None
        if inst.get('linked'):
            le = {}
            for e, f in inst['linked']:         # lists, in listing order (the map's own representation)
                fl = le.setdefault((conc.lab(e[0]), conc.lab(e[1])), [])
                if (conc.lab(f[0]), conc.lab(f[1])) not in fl:
                    fl.append((conc.lab(f[0]), conc.lab(f[1])))
            if conc.nbr_order == 'rev':
                le = {k: list(reversed(v)) for k, v in le.items()}
        m = InMemMap('g', use_latlon=latlon, use_rtree=False, index_edges=False, linked_edges=le)
        for n in nodes:
            m.add_node(conc.lab(n), conc.loc(inst['coord'][n] if n in inst['coord'] else inst['coord'][str(n)]))
        for n in nodes:
            for b in adj[n]:
                m.add_edge(conc.lab(n), conc.lab(b))
        return m
    from leuvenmapmatching.map.sqlite import SqliteMap
    name = f'geo{os.getpid()}_{random.getrandbits(40)}'
    m = SqliteMap(name, use_latlon=latlon, dir=d or common.scratch())
    for n in nodes:
        m.add_node(conc.lab(n), conc.loc(inst['coord'][n] if n in inst['coord'] else inst['coord'][str(n)]))
    for n in nodes:
        for b in adj[n]:
            m.add_edge(conc.lab(n), conc.lab(b))
    return m


def build_matcher(mp, cf, conc):
    from leuvenmapmatching.matcher.simple import SimpleMatcher
    from leuvenmapmatching.matcher.distance import DistanceMatcher
    kw = dict(obs_noise=conc.dscale(cf['obs_noise']), max_dist=conc.dscale(cf['max_dist']),
              max_dist_init=conc.dscale(cf['max_dist_init']), min_prob_norm=cf['min_prob_norm'],
              non_emitting_states=cf['ne'], only_edges=cf['only_edges'], avoid_goingback=cf['avoid_goingback'],
              max_lattice_width=(cf['W'] or None))
    if cf.get('obs_noise_ne') is not None:
        kw['obs_noise_ne'] = conc.dscale(cf['obs_noise_ne'])
    if cf['cls'] == 'newsonkrumm':
        from leuvenmapmatching.matcher.newsonkrumm import NewsonKrummMatcher
        kw['beta'] = conc.dscale(cf['dist_noise'])
        if cf.get('dist_noise_ne') is not None:
            kw['beta_ne'] = conc.dscale(cf['dist_noise_ne'])
        m = NewsonKrummMatcher(mp, **kw)
    elif cf['cls'] == 'distance':
        if cf.get('dist_noise') is not None:
            kw['dist_noise'] = conc.dscale(cf['dist_noise'])
        if cf.get('dist_noise_ne') is not None:
            kw['dist_noise_ne'] = conc.dscale(cf['dist_noise_ne'])
        kw['restrained_ne'] = bool(cf.get('restrained_ne', True))
        m = DistanceMatcher(mp, **kw)
    else:
        m = SimpleMatcher(mp, **kw)
    if cf.get('ne_max'):
        m.non_emitting_states_maxnb = int(cf['ne_max'])       # public attribute bounding the depth of a non-emitting run
    return m


def st_of(x, conc):
    if x.edge_m.l2 is not None:
        return [conc.unlab(x.edge_m.l1), conc.unlab(x.edge_m.l2)]
    return [conc.unlab(x.edge_m.l1)]


def proj_entry(x, conc):
    pk = []
    if x.prev:
        # normally exactly one best predecessor; if a change makes it several, take a deterministic one
        # (the event's `dangling` / `multiprev` lists report the anomaly to the trace specification)
        p = sorted(x.prev, key=lambda q: str(q.key))[0]
        pk = [st_of(p, conc), p.obs, p.obs_ne]
    return {'st': st_of(x, conc), 'obs': x.obs, 'ne': x.obs_ne, 'lp': fx(x.logprob), 'lpe': fx(x.logprobe),
            'lpne': fx(x.logprobne), 'prev': pk, 'stop': bool(x.stop), 'len': x.length, 'delayed': x.delayed,
            'dist': fx(x.dist_obs / conc.s)}


def proj_lattice(m, conc):
    out = []
    if not m.lattice:
        return out
    for c in range(len(m.lattice)):
        out.append([[proj_entry(x, conc) for x in L.values()] for L in m.lattice[c].o])
    return out


PKG_LOGGER = "be.kuleuven.cs.dtai.mapmatching"


@contextlib.contextmanager
def log_level(debug):
    lg = logging.getLogger(PKG_LOGGER)
    old = lg.level
    lg.setLevel(logging.DEBUG if debug else logging.ERROR)
    try:
        with contextlib.redirect_stdout(io.StringIO()):
            yield
    finally:
        lg.setLevel(old)


def run_geo(inst, cf, conc, ops=None, unique=False, full=True, snapper=None):
    """run the real matcher; returns (events, matcher).  ops default: one match of the whole trace."""
    ops = ops or [('match', len(inst['path']))]
    events = []
    common.install_stamps()
    with log_level(conc.debug):
        mp = build_map(inst, conc)
        m = build_matcher(mp, cf, conc)
        if inst.get('pretrace'):
            try:
                m.match([conc.loc(p) for p in inst['pretrace']])       # an earlier, unrelated use of the same matcher object
            except Exception:
                pass
        sn = snapper(m) if snapper else None
        path_all = [conc.loc(p) for p in inst['path']]
        if conc.triples:
            path_all = [(p[0], p[1], 1000.0 + 7 * i) for i, p in enumerate(path_all)]
        W = cf['W']
        last = ([], 0)
        for op, arg in ops:
            if op in ('cwd', 'rematch') and (m.lattice is None or m.early_stop_idx is None or m.early_stop_idx == 0
                                             or not cf['only_edges'] or cf['max_dist'] is None or not last[0]):
                # continue_with_distance is documented for an early-stopped match with edge states.  (`not last[0]`:
                # a fresh match() that returns ([], 0) leaves `early_stop_idx` at the value of an EARLIER call on the
                # same matcher object, so the attribute alone does not say that the last call stopped early.)
                continue
            o = {'op': op, 'arg': arg, 'w': W, 'unique': unique, 'exc': ''}
            try:
                if op == 'cwd':
                    m.continue_with_distance()
                    states, idx = last
                elif op == 'rematch':
                    states, idx = m.match(path_all[:arg], unique=unique, expand=True)
                elif op == 'match':
                    states, idx = m.match(path_all[:arg], unique=unique)
                elif op == 'extend':
                    states, idx = m.match(path_all[:arg], unique=unique, expand=True)
                elif op == 'widen':
                    W = arg
                    o['w'] = W
                    states, idx = m.increase_max_lattice_width(arg, unique=unique)
                else:
                    raise common.MachineryError('unknown op ' + op)
                if states is None:
                    o['exc'] = 'match returned None instead of a state list'
                    states = []
                last = (states, idx)
                o['states'] = [[conc.unlab(s[0]), conc.unlab(s[1])] if isinstance(s, tuple) else [conc.unlab(s)] for s in states]
                o['idx'] = idx if isinstance(idx, int) else -99
            except common.MachineryError:
                raise
            except Exception as ex:
                o['exc'] = (type(ex).__name__ + ': ' + str(ex))[:300]
                o['states'], o['idx'] = [], -99
            lb = m.lattice_best or []
            o['path'] = [proj_entry(x, conc) for x in lb]
            o['pstamp'] = [common.stamp_of(x) for x in lb]
            o['partial'] = sum(common.partial_replacements(m).values())
            o['now'] = m.expand_now
            o['early'] = -1 if m.early_stop_idx is None else m.early_stop_idx
            try:
                o['onlynodes'] = [conc.unlab(n) for n in m.node_path_to_only_nodes(m.node_path)] if (lb and m.node_path) else []
                o['onlynodes_exc'] = ''
            except Exception as ex:
                o['onlynodes'], o['onlynodes_exc'] = [], repr(ex)[:200]
            o['lat'] = proj_lattice(m, conc) if full else []
            o['snaps'] = sn.take() if sn else []
            # geometric detail of the best path (for C02 / C05 model validation)
            o['geo'] = [{'ti': None if x.edge_m.ti is None else float(x.edge_m.ti),
                         'pi': None if x.edge_m.pi is None else [float(x.edge_m.pi[0]), float(x.edge_m.pi[1])],
                         'lp': float(x.logprob), 'dist': float(x.dist_obs),
                         'd_o': float(getattr(x, 'd_o', 0.0)), 'd_s': float(getattr(x, 'd_s', 0.0)),
                         'lpt': float(getattr(x, 'lpt', 0.0)), 'lpe1': float(getattr(x, 'lpe', 0.0)),
                         'opi': None if x.edge_o.pi is None else [float(x.edge_o.pi[0]), float(x.edge_o.pi[1])]}
                        for x in lb]
            events.append(o)
    if conc.backend == 'sqlite':
        try:
            mp.db.close()
            os.remove(str(mp.db_fn))
        except Exception:
            pass
    return events, m


def graph_tables(inst, selfnbr=True):
    """the instance part LatticeTrace needs for the table-free clauses (graph only)"""
    adj = {n: [] for n in inst['nodes']}
    for a, b in inst['edges']:
        if b not in adj[a]:
            adj[a].append(b)
    if selfnbr:
        for n in adj:
            adj[n].append(n)         # InMemMap lists every node as its own neighbour
    T = len(inst['path'])
    rows = []
    if inst.get('linked'):          # rows only carry the linked-edge lists (no weights: table-free clauses)
        lk = {}
        for e, f in inst['linked']:
            lk.setdefault(tuple(e), []).append(list(f))
        for a, b in inst['edges']:
            rows.append({'st': [a, b], 'dE': [0] * T, 'lE': [0] * T, 'dN': [0] * T, 'lN': [0] * T, 'ti': [1] * T,
                         'skip': [False] * T, 'linked': lk.get((a, b), [])})
    return {'nodes': list(inst['nodes']), 'nbrs': [[n, adj[n]] for n in inst['nodes']], 'tab': rows,
            'tr': {'move': 0, 'moveNE': 0, 'back': 0}, 'T': T, 'hasTT': False, 'tt': []}


def spec_cf(cf):
    """configuration in the vocabulary of the specification (fixed point)"""
    md = BIG if cf['max_dist'] is None else fx(cf['max_dist'])
    mdi = md if cf['max_dist_init'] is None else fx(cf['max_dist_init'])
    mlp = [-BIG, 1] if cf['min_prob_norm'] is None else [fx(math.log(cf['min_prob_norm'])), 1]
    return {'onlyEdges': cf['only_edges'], 'ne': cf['ne'], 'W': cf['W'], 'maxDist': md, 'maxDistInit': mdi,
            'minlp': mlp, 'neLen': fx(math.log(0.75)), 'neMax': int(cf.get('ne_max') or 100), 'secondOrder': bool(cf['avoid_goingback']),
            'slack': 8, 'tables': False, 'oracle': False, 'debug': False}


# ------------------------------------------------------------------ recording for spec/Models.tla
def mx(v, scale=1000):
    if v is None or v != v or abs(v) == math.inf:
        return -BIG
    r = int(round(v * scale))
    if abs(r) >= 10 ** 6 * 20:     # saturate (keeps TLC's 32-bit products in range); shows up as a mismatch
        return 2 * 10 ** 7 - 1 if r > 0 else -(2 * 10 ** 7 - 1)
    return r


def frac2(x):
    from fractions import Fraction
    f = 2 * Fraction(str(x)) ** 2
    return [f.numerator, f.denominator]


def frac1(x):
    from fractions import Fraction
    f = Fraction(str(x))
    return [f.numerator, f.denominator]


def _d(p, q):
    return math.hypot(p[0] - q[0], p[1] - q[1])


def model_record(tid, inst, cf, ops=None, k=0):
    """run the real matcher at unit scale on the plane and record EVERY lattice entry with the quantities the
    documented model is stated in (spec/Models.tla validates them)."""
    conc = Conc(k=k)          # k < 0: planar coordinates of 1e-4 .. 1e-5 units (degrees / kilometres used as x-y)
    S = conc.s
    stamped = common.install_stamps()
    evs, m = run_geo(inst, cf, conc, ops=ops, full=False)
    if evs[-1]['exc']:
        return None, evs[-1]['exc']
    entries, index = [], {}
    objs = []
    for c in range(len(m.lattice)):
        for L in m.lattice[c].o:
            for x in L.values():
                index[id(x)] = len(objs) + 1
                objs.append(x)
    for x in objs:
        p = next(iter(x.prev)) if x.prev else None
        if p is not None and id(p) not in index:
            # predecessor object not in the lattice (C09's business); validate against the object itself
            index[id(p)] = len(objs) + 1
            objs.append(p)
    for x in objs:
        p = next(iter(x.prev)) if x.prev else None
        st = [x.edge_m.l1, x.edge_m.l2] if x.edge_m.l2 is not None else [x.edge_m.l1]
        pi = x.edge_m.pi if x.edge_m.pi is not None else x.edge_m.p1
        e = {'st': st, 'obs': x.obs, 'ne': x.obs_ne, 'prev': index[id(p)] if p is not None else 0,
             'lp': mx(x.logprob), 'lpe': mx(x.logprobe), 'lpne': mx(x.logprobne), 'len': x.length,
             'dist': mx(x.dist_obs / S), 'd2': mx((x.dist_obs / S) ** 2), 'ti': mx(x.edge_m.ti if x.edge_m.ti is not None else 0.0, 10000),
             'pi': [mx(pi[0] / S), mx(pi[1] / S)], 'stop': bool(x.stop),
             'do': mx(getattr(x, 'd_o', 0.0) / S), 'ds': mx(getattr(x, 'd_s', 0.0) / S), 'lpt': mx(getattr(x, 'lpt', 0.0)),
             'lpe1': mx(getattr(x, 'lpe', 0.0)), 'tiless': False, 'ca': 0, 'cb1': 0, 'cb2': 0, 'cz': 0,
             'stamp': common.stamp_of(x)[0] if stamped else 0, 'round': common.stamp_of(x)[1] if stamped else 0}
        if p is not None:
            tp = p.edge_m.ti if p.edge_m.ti is not None else 0.0
            tx = x.edge_m.ti if x.edge_m.ti is not None else 0.0
            e['tiless'] = bool(tx < tp)
            ppi = p.edge_m.pi if p.edge_m.pi is not None else p.edge_m.p1
            e['ca'] = mx(_d(ppi, pi) / S)
            if p.edge_m.p2 is not None:
                e['cb1'] = mx(_d(ppi, p.edge_m.p2) / S)
                e['cb2'] = mx(_d(p.edge_m.p2, pi) / S)
            po = p.edge_o.pi if p.edge_o.pi is not None else p.edge_o.p1
            xo = x.edge_o.pi if x.edge_o.pi is not None else x.edge_o.p1
            e['cz'] = mx(_d(po, xo) / S)
        entries.append(e)
    path = [index[id(x)] for x in (m.lattice_best or [])]
    T = len(inst['path'])
    nmax = max(inst['nodes'])
    coord4 = [[0, 0]] * nmax
    coord4 = [[4 * inst['coord'][n][0], 4 * inst['coord'][n][1]] if n in inst['coord'] else [0, 0] for n in range(1, nmax + 1)]
    dn = cf.get('dist_noise') if cf.get('dist_noise') is not None else cf['obs_noise']
    one = cf['obs_noise_ne'] if cf.get('obs_noise_ne') is not None else cf['obs_noise']
    dnne = cf.get('dist_noise_ne') if cf.get('dist_noise_ne') is not None else dn
    rec = {'tid': tid, 'cls': cf['cls'], 'goback': bool(cf['avoid_goingback']), 'sig2': frac2(cf['obs_noise']),
           'sig2ne': frac2(one), 'beta2': frac2(dn), 'beta2ne': frac2(dnne),
           'nkbeta': frac1(dn), 'nkbetane': frac1(dnne),          # Newson-Krumm: beta, beta_ne as rationals
           'coord4': coord4, 'obs4': [[int(round(4 * p[0])), int(round(4 * p[1]))] for p in inst['path']],
           'fresh': all(o[0] == 'match' for o in (ops or [('match', T)])), 'entries': entries, 'path': path,
           'partial': sum(common.partial_replacements(m).values())}
    return rec, ''


# ------------------------------------------------------------------ recording for spec/Views.tla
def views_record(tid, inst, cf, ops=None, unique=False):
    conc = Conc()
    evs, m = run_geo(inst, cf, conc, ops=ops, unique=unique, full=True)
    ev = evs[-1]
    if ev['exc'] or not m.lattice_best:
        return None
    lb = m.lattice_best
    path = []
    for i, x in enumerate(lb):
        pi = x.edge_m.pi if x.edge_m.pi is not None else x.edge_m.p1
        e = {'st': st_of(x, conc), 'obs': x.obs, 'ne': x.obs_ne, 'lp': fx(x.logprob), 'dist': mx(x.dist_obs),
             'ti': mx(x.edge_m.ti if x.edge_m.ti is not None else 0.0, 10000), 'ca': 0, 'cb1': 0, 'cb2': 0, 'cz': 0}
        if i > 0:
            p = lb[i - 1]
            ppi = p.edge_m.pi if p.edge_m.pi is not None else p.edge_m.p1
            e['ca'] = mx(_d(ppi, pi))
            if p.edge_m.p2 is not None:
                e['cb1'] = mx(_d(ppi, p.edge_m.p2))
                e['cb2'] = mx(_d(p.edge_m.p2, pi))
            po = p.edge_o.pi if p.edge_o.pi is not None else p.edge_o.p1
            xo = x.edge_o.pi if x.edge_o.pi is not None else x.edge_o.p1
            e['cz'] = mx(_d(po, xo))
        path.append(e)
    v = {'all_distances': [mx(d) for d in m.path_all_distances()], 'onlynodes_exc': '', 'get_path': [], 'withjumps': [],
         'pred_distance': mx(m.path_pred_distance()), 'obs_distance': mx(m.path_distance()), 'best_of_column': []}
    try:
        v['get_path'] = [conc.unlab(n) for n in m.path_pred_onlynodes]
    except Exception as ex:
        v['onlynodes_exc'] = repr(ex)[:100]
    v['withjumps'] = [conc.unlab(n) for n in m.path_pred_onlynodes_withjumps]
    for c in range(len(m.lattice)):
        g = m.get_matching(c)
        v['best_of_column'].append(fx(g.logprob) if g is not None else -BIG)
    return {'tid': tid, 'unique': unique, 'path': path, 'lat': ev['lat'], 'views': v}


# ------------------------------------------------------------------ first-order weight tables of the real models (C01)
def extract_tables(inst, cf):
    """Evaluate the real model functions (logprob_obs, logprob_trans) and the map's distance functions for every
    state x observation and every ordered pair of states, WITHOUT running the search: the tables the walk-enumeration
    oracle of LatticeProps works on.  Distance cut-offs are turned into flags here (dE = 0 admissible / 2 cut off,
    with maxDist = maxDistInit = 1 in the specification's configuration), so that no fixed-point comparison of a
    distance with a cut-off is ever made."""
    from leuvenmapmatching.util.segment import Segment
    conc = Conc()
    with log_level(False):
        mp = build_map(inst, conc)
        m = build_matcher(mp, cf, conc)
    co = inst['coord']
    adj = {n: [] for n in inst['nodes']}
    for a, b in inst['edges']:
        if b not in adj[a]:
            adj[a].append(b)
    for n in adj:
        adj[n].append(n)
    edges = [(a, b) for a in inst['nodes'] for b in adj[a] if a != b]
    states = edges + ([] if cf['only_edges'] else [(n,) for n in inst['nodes']])
    T = len(inst['path'])
    md = math.inf if cf['max_dist'] is None else cf['max_dist']
    mdi = md if cf['max_dist_init'] is None else cf['max_dist_init']
    seg, rows = {}, []
    lk = {}
    for e, f in inst.get('linked') or []:
        lk.setdefault(tuple(e), []).append(list(f))
    for st in states:
        row = {'st': list(st), 'dE': [], 'lE': [], 'dN': [0] * T, 'lN': [0] * T, 'ti': [], 'skip': [False] * T,
               'linked': lk.get(tuple(st), [])}
        for t in range(T):
            obs = tuple(inst['path'][t])
            if len(st) == 2:
                pa, pb = tuple(float(v) for v in co[st[0]]), tuple(float(v) for v in co[st[1]])
                dist, pi, ti = mp.distance_point_to_segment(obs, pa, pb)
                sg = Segment(st[0], pa, st[1], pb, pi, ti)
                row['ti'].append(0 if (abs(ti) <= 1e-8 or abs(ti - 1.0) <= 1e-8) else 1)
            else:
                pn = tuple(float(v) for v in co[st[0]])
                dist = mp.distance(pn, obs)
                sg = Segment(st[0], pn)
                row['ti'].append(1)
            eo = Segment(f'O{t}', obs)
            lo = m.logprob_obs(dist, None, sg, eo)[0]
            seg[(st, t)] = (sg, eo)
            ok = (dist <= md) and (t > 0 or dist < mdi)
            row['dE'].append(0 if ok else 2)
            row['lE'].append(fx(lo))
        rows.append(row)
    tt = []
    for t in range(1, T):
        for p in states:
            sgp, eop = seg[(p, t - 1)]
            prev = m.matching(m, edge_m=sgp, edge_o=eop, logprob=0.0, logprobe=0.0, logprobne=0.0, obs=t - 1)
            for s_ in states:
                sgs, eos = seg[(s_, t)]
                lt = m.logprob_trans(prev, sgs, eos, is_prev_ne=False, is_next_ne=False)[0]
                tt.append([list(p), list(s_), t, fx(lt)])
    itab = {'nodes': list(inst['nodes']), 'nbrs': [[n, adj[n]] for n in inst['nodes']], 'tab': rows,
            'tr': {'move': 0, 'moveNE': 0, 'back': 0}, 'T': T, 'hasTT': True, 'tt': tt}
    scf = spec_cf(cf)
    scf.update(maxDist=1, maxDistInit=1, oracle=True, tables=False, slack=4 * T + 4)
    return itab, scf
