"""Sub-process worker: runs a batch of (instance, configuration, concretisation) jobs on the real matchers and
prints the observables as JSON.  Started with a specific PYTHONHASHSEED by harness/embed.py (C10)."""
import json, sys
from . import common, geom


def main():
    common.import_repo()
    jobs = json.load(sys.stdin)
    out = []
    for j in jobs:
        conc = geom.Conc.from_desc(j['conc'])
        inst = j['inst']
        inst['coord'] = {int(k): v for k, v in inst['coord'].items()}
        evs, _ = geom.run_geo(inst, j['cf'], conc, ops=[tuple(o) for o in j['ops']], unique=j.get('unique', False), full=bool(j.get('full', False)))
        out.append(evs[-1])
    json.dump(out, sys.stdout)


if __name__ == '__main__':
    try:
        main()
    except common.MachineryError as ex:
        print('MACHINERY-ERROR ' + str(ex), file=sys.stderr)
        sys.exit(2)
