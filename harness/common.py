"""Shared machinery: locating the repository under test, running TLC, evidence, verdicts.

Exit codes of every check: 0 = property held on everything explored (KNOWN-FINDING lines allowed),
1 = at least one VIOLATION line, 2 = machinery failure (never used for a property verdict).
"""
import json, os, re, shutil, subprocess, sys, tempfile, time, hashlib

VERIF = os.path.dirname(os.path.dirname(os.path.abspath(__file__)))
REPO = os.environ.get('LMM_REPO', '/repo')
SPEC = os.path.join(VERIF, 'spec')
GUARD = 'LEUVENMAPMATCHING_VERIF'


class MachineryError(Exception):
    pass


def nonull(o):
    """TLC's JSON reader has no null: None -> "none" (recursively)"""
    if o is None:
        return 'none'
    if isinstance(o, dict):
        return {str(k): nonull(v) for k, v in o.items()}
    if isinstance(o, (list, tuple)):
        return [nonull(v) for v in o]
    return o


def import_repo():
    """Put the tree under test first on sys.path and make sure it is the one imported."""
    if sys.path[0] != REPO:
        sys.path.insert(0, REPO)
    import warnings
    warnings.filterwarnings('ignore')
    import logging
    import leuvenmapmatching
    f = os.path.realpath(leuvenmapmatching.__file__)
    if not f.startswith(os.path.realpath(REPO) + os.sep):
        raise MachineryError(f'leuvenmapmatching imported from {f}, not from {REPO}')
    lg = logging.getLogger("be.kuleuven.cs.dtai.mapmatching")
    if not lg.handlers:            # first call only: later calls must not reset a level chosen by a check
        lg.addHandler(logging.NullHandler())
        lg.setLevel(logging.ERROR)
        lg.propagate = False
    return leuvenmapmatching


_scratch = None


def scratch():
    """Per-process scratch directory, removed at exit."""
    global _scratch
    if _scratch is None:
        base = os.environ.get('VERIF_SCRATCH_BASE') or tempfile.gettempdir()
        _scratch = tempfile.mkdtemp(prefix='lmmverif_', dir=base)
        import atexit
        atexit.register(lambda: shutil.rmtree(_scratch, ignore_errors=True))
    return _scratch


_STATS = re.compile(r'^(\d+) states generated, (\d+) distinct states found, (\d+) states left on queue')
_PROGRESS = re.compile(r'^Progress\(\d+\) at [^:]+:\d\d:\d\d: ([\d,]+) states generated .*?([\d,]+) distinct states found .*?([\d,]+) states left on queue')
_SIMSTATS = re.compile(r'The number of states generated: (\d+)')


class TLCResult:
    def __init__(self):
        self.lines = []
        self.json = []
        self.generated = 0
        self.distinct = 0
        self.queue = 0
        self.wall = 0.0
        self.cmd = ''
        self.ok = False
        self.invariant_violated = None
        self.timed_out = False
        self.tail = ''
        self.coverage = {}


def _unquote(line):
    # a TLA+ string printed by PrintT: "...." with \" and \\ escapes
    s = line[1:-1]
    return s.replace('\\"', '"').replace('\\\\', '\\')


def run_tlc(module, cfg, workers=8, timeout=600, env=None, simulate=None, depth=None, seed=None,
            coverage=False, deadlock=False, extra=None, keep_lines=False, allow_violation=False, allow_timeout=False):
    """Run TLC on spec/<module>.tla with spec/<cfg>.  Returns TLCResult.
    Lines printed with PrintT(ToJson(x)) are collected in .json (parsed)."""
    md = tempfile.mkdtemp(prefix='tlc_', dir=scratch())
    cmd = ['java', '-XX:+UseParallelGC', '-Xmx6g', '-Xss64m', f'-Djava.io.tmpdir={md}',      # TLC's own temp dirs go with the metadir
           '-cp', '/opt/veriftools/tla/tla2tools.jar:/opt/veriftools/tla/CommunityModules-deps.jar',
           'tlc2.TLC', '-workers', str(workers), '-metadir', md, '-noGenerateSpecTE',
           '-config', cfg]
    if simulate is not None:
        cmd += ['-simulate', simulate]
    if depth is not None:
        cmd += ['-depth', str(depth)]
    if seed is not None:
        cmd += ['-seed', str(seed)]
    if coverage:
        cmd += ['-coverage', '1']
    if deadlock:
        cmd += ['-deadlock']
    if extra:
        cmd += list(extra)
    cmd += [module]
    e = dict(os.environ)
    e.pop('JAVA_TOOL_OPTIONS', None)
    if env:
        e.update({k: str(v) for k, v in env.items()})
    r = TLCResult()
    r.cmd = ' '.join(cmd[cmd.index('tlc2.TLC'):])
    t0 = time.time()
    try:
        p = subprocess.run(cmd, cwd=SPEC, env=e, stdout=subprocess.PIPE, stderr=subprocess.STDOUT,
                           timeout=timeout, text=True, errors='replace')
        out = p.stdout
        rc = p.returncode
    except subprocess.TimeoutExpired as ex:
        out = ex.stdout if isinstance(ex.stdout, str) else (ex.stdout or b'').decode('utf8', 'replace')
        rc = -9
        r.timed_out = True
    r.wall = time.time() - t0
    shutil.rmtree(md, ignore_errors=True)
    other = []
    for line in out.splitlines():
        if line.startswith('"{') and line.endswith('}"'):
            try:
                r.json.append(json.loads(_unquote(line)))
                continue
            except Exception:
                pass
        m = _STATS.match(line)
        if m:
            r.generated, r.distinct, r.queue = int(m.group(1)), int(m.group(2)), int(m.group(3))
        m = _PROGRESS.match(line)
        if m and not r.distinct:        # a time-limited run ends without the summary line: keep the last progress report
            r.generated, r.queue = int(m.group(1).replace(',', '')), int(m.group(3).replace(',', ''))
            r._progress_distinct = int(m.group(2).replace(',', ''))
        m = _SIMSTATS.search(line)
        if m:
            r.generated = max(r.generated, int(m.group(1)))
        if line.startswith('Error: Invariant') or line.startswith('Error: Action property') \
                or line.startswith('Error: Temporal'):
            r.invariant_violated = line
        other.append(line)
    if keep_lines:
        r.lines = other
    first_err = next((i for i, l in enumerate(other) if l.startswith('Error')), None)
    r.tail = '\n'.join((other[first_err:first_err + 25] + ['...'] if first_err is not None else []) + other[-25:])
    finished = any('Model checking completed' in l or 'Finished in' in l for l in other[-12:])
    r.ok = (rc == 0 and finished) or (r.timed_out and simulate is not None)
    if r.invariant_violated and allow_violation:
        return r
    if r.timed_out and allow_timeout:
        if not r.distinct:
            r.distinct = getattr(r, '_progress_distinct', 0)
        return r
    if not r.ok and not (allow_violation and r.invariant_violated):
        if r.invariant_violated:
            return r
        raise MachineryError(f'TLC failed (rc={rc}, timeout={r.timed_out}) on {module}/{cfg}:\n{r.tail}')
    return r


def run_tlc_parts(module, cfg, nparts=16, timeout=900, env=None, **kw):
    """Run nparts single-worker TLC processes, each on the slice PART of the case space."""
    from concurrent.futures import ThreadPoolExecutor
    def one(i):
        e = dict(env or {})
        e.update({'PART': i, 'NPARTS': nparts})
        return run_tlc(module, cfg, workers=1, timeout=timeout, env=e, **kw)
    t0 = time.time()
    with ThreadPoolExecutor(max_workers=min(nparts, 16)) as ex:
        rs = list(ex.map(one, range(nparts)))
    r = TLCResult()
    r.cmd = rs[0].cmd + f'   # x{nparts} processes, PART=0..{nparts-1}'
    r.ok = all(x.ok for x in rs)
    for x in rs:
        r.json.extend(x.json)
        r.generated += x.generated
        r.distinct += x.distinct
        r.lines.extend(x.lines)
        if x.invariant_violated:
            r.invariant_violated = x.invariant_violated
            r.tail = x.tail
    r.wall = time.time() - t0
    return r


def run_apalache(module, init, inv, length, timeout=900):
    """Apalache (symbolic) check; returns (ok, seconds, tail).  Used opportunistically: no verdict depends on it."""
    out = tempfile.mkdtemp(prefix='apa_', dir=scratch())
    t0 = time.time()
    try:
        p = subprocess.run(['apalache-mc', 'check', f'--init={init}', f'--inv={inv}', f'--length={length}',
                            f'--out-dir={out}', module], cwd=SPEC, stdout=subprocess.PIPE, stderr=subprocess.STDOUT,
                           timeout=timeout, text=True, errors='replace')
        txt = p.stdout
    except (subprocess.TimeoutExpired, FileNotFoundError) as ex:
        txt = repr(ex)
    shutil.rmtree(out, ignore_errors=True)
    return ('The outcome is: NoError' in txt), time.time() - t0, txt[-600:]


class Check:
    """Collects verdicts for one property run and writes the evidence file."""

    def __init__(self, pid, tier, seed):
        self.pid, self.tier, self.seed = pid, tier, seed
        self.t0 = time.time()
        self.violations = []      # (what, replay_path)
        self.known_hits = {}      # finding id -> count
        self.drift = []
        self.cov = {'evaluations': 0, 'distinct_nontrivial': 0, 'states': 0, 'transitions': 0,
                    'traces_validated_against_impl': 0, 'samples': [], 'tlc_runs': [], 'parts': {}}
        self.assumptions = []
        self.rules = []
        kf = json.load(open(os.path.join(VERIF, 'known_findings.json')))
        self.known = [k for k in kf['findings'] if k['property'] == pid and k['status'] == 'known']
        self.fixed = [k for k in kf['findings'] if k['property'] == pid and k['status'] == 'fixed']
        os.makedirs(os.path.join(VERIF, 'replays'), exist_ok=True)
        os.makedirs(os.path.join(VERIF, 'evidence'), exist_ok=True)

    # ---- coverage accounting
    def tlc(self, res, label):
        self.cov['states'] += res.distinct if res.distinct else res.generated
        self.cov['transitions'] += res.generated
        self.cov['tlc_runs'].append({'label': label, 'cmd': res.cmd, 'generated': res.generated,
                                     'distinct': res.distinct, 'wall_s': round(res.wall, 2),
                                     'timed_out': res.timed_out})

    def count(self, part, evaluations=0, nontrivial=0, traces=0, **extra):
        p = self.cov['parts'].setdefault(part, {'evaluations': 0, 'distinct_nontrivial': 0, 'traces': 0})
        p['evaluations'] += evaluations
        p['distinct_nontrivial'] += nontrivial
        p['traces'] += traces
        for k, v in extra.items():
            p[k] = p.get(k, 0) + v if isinstance(v, (int, float)) else v
        self.cov['evaluations'] += evaluations
        self.cov['distinct_nontrivial'] += nontrivial
        self.cov['traces_validated_against_impl'] += traces

    def sample(self, s, limit=4):
        if len(self.cov['samples']) < limit:
            self.cov['samples'].append(s)

    def rule(self, text):
        if text not in self.rules:
            self.rules.append(text)

    def assume(self, text):
        if text not in self.assumptions:
            self.assumptions.append(text)

    # ---- verdicts
    def match_known(self, sig):
        """sig: dict describing the failing case; a known finding matches when all of its signature
        items are equal to the case's."""
        for k in self.known:
            if all((sig.get(a) in b) if isinstance(b, list) else (sig.get(a) == b) for a, b in k['signature'].items()):
                return k
        return None

    def violation(self, what, replay, sig=None):
        """Report a property-level contradiction. `replay` is a JSON-able self-contained case."""
        sig = sig or {}
        k = self.match_known(sig)
        if k is not None:
            self.known_hits[k['id']] = self.known_hits.get(k['id'], 0) + 1
            if self.known_hits[k['id']] <= 2:      # keep a replay of the recorded finding's instance as well
                kp = os.path.join(VERIF, 'replays', f"known_{k['id']}_{self.known_hits[k['id']]}.json")
                with open(kp, 'w') as f:
                    json.dump({'property': self.pid, 'what': what, 'sig': sig, 'case': replay, 'finding': k['id']}, f, indent=1, default=str)
            return False
        h = hashlib.sha1(json.dumps(replay, sort_keys=True, default=str).encode()).hexdigest()[:12]
        path = os.path.join(VERIF, 'replays', f'{self.pid}_{h}.json')
        if len(self.violations) < 25:
            with open(path, 'w') as f:
                json.dump({'property': self.pid, 'what': what, 'sig': sig, 'case': replay}, f, indent=1, default=str)
            print(f'VIOLATION property={self.pid} replay={path}   # {what}', flush=True)
        self.violations.append((what, path))
        return True

    def spec_drift(self, what):
        if len(self.drift) < 10:
            print(f'SPEC-DRIFT property={self.pid} {what}', flush=True)
        self.drift.append(what)

    def finish(self):
        for k in self.known:
            n = self.known_hits.get(k['id'], 0)
            print(f"KNOWN-FINDING: property={self.pid} {k['id']}: {k['what']} (matched {n} case(s) in this run)", flush=True)
        cov = self.cov
        cov['rule'] = ' | '.join(self.rules)
        cov['known_finding_hits'] = self.known_hits
        cov['spec_drift'] = len(self.drift)
        if cov['states'] <= 0:
            cov['states'] = 0
        ev = {'property_id': self.pid, 'tier': self.tier, 'seed': self.seed, 'level': 'model_checking',
              'coverage': cov, 'assumptions': self.assumptions, 'wall_s': round(time.time() - self.t0, 2),
              'violations': len(self.violations)}
        # evidence describes runs against /repo itself; runs against another tree (LMM_REPO) go elsewhere
        evdir = 'evidence' if os.path.realpath(REPO) == '/repo' else 'evidence_other'
        os.makedirs(os.path.join(VERIF, evdir), exist_ok=True)
        with open(os.path.join(VERIF, evdir, f'{self.pid}.json'), 'w') as f:
            json.dump(ev, f, indent=1, default=str)
        print(f'{self.pid} tier={self.tier} seed={self.seed}: evaluations={cov["evaluations"]} '
              f'nontrivial={cov["distinct_nontrivial"]} states={cov["states"]} traces={cov["traces_validated_against_impl"]} '
              f'violations={len(self.violations)} known_hits={sum(self.known_hits.values())} '
              f'drift={len(self.drift)} wall={ev["wall_s"]}s', flush=True)
        return 1 if self.violations else 0


# ------------------------------------------------------------------ scoring stamps (run-time wrapper, guard-controlled)
_SEQ = [0]


def install_stamps():
    """Wraps BaseMatching.__init__ and BaseMatching._update_inner (add-only, at run time, only when the guard
    LEUVENMAPMATCHING_VERIF is set) so that every lattice entry carries the sequence number of the moment its score was
    last written (creation, or in-place replacement by a better candidate) and the expansion round (expand_now) in
    which that happened.  Kept in a dict on the matcher object.  Used to recognise F-stale: a predecessor replaced in
    place after its successor was scored."""
    if os.environ.get('LEUVENMAPMATCHING_VERIF') != '1':
        return False
    import_repo()
    from leuvenmapmatching.matcher.base import BaseMatching
    if getattr(BaseMatching, '_verif_stamped', None) is not None:
        return BaseMatching._verif_stamped
    try:
        init0, upd0, update0 = BaseMatching.__init__, BaseMatching._update_inner, BaseMatching.update
    except AttributeError:
        # the entry points were renamed: no stamps (a stale-score case then cannot be attributed to F-stale and is
        # reported as a violation of C02, which errs on the side of reporting)
        BaseMatching._verif_stamped = False
        return False

    def _mark(x):
        mt = getattr(x, 'matcher', None)
        if mt is None:
            return
        _SEQ[0] += 1
        try:
            mt.__dict__.setdefault('_verif_stamps', {})[id(x)] = [_SEQ[0], getattr(mt, 'expand_now', 0) or 0]
        except Exception:
            pass

    def init1(self, *a, **kw):
        init0(self, *a, **kw)
        _mark(self)

    def upd1(self, m_other):
        upd0(self, m_other)
        _mark(self)

    def update1(self, m_next):
        """Lattice.Upsert replaces the stored entry by the winning candidate as a whole; an in-place replacement that
        leaves a model field of the old entry behind is counted on the matcher (`_verif_partial`)."""
        r = update0(self, m_next)
        if r:
            try:
                bad = [f for f in REPLACED_FIELDS if hasattr(m_next, f) and getattr(self, f) != getattr(m_next, f)]
                if self.edge_m.l1 != m_next.edge_m.l1 or self.edge_m.l2 != m_next.edge_m.l2:
                    bad.append('edge_m')
                if bad:
                    mt = self.matcher
                    d = mt.__dict__.setdefault('_verif_partial', {})
                    for f in bad:
                        d[f] = d.get(f, 0) + 1
            except Exception:
                pass
        return r

    BaseMatching.__init__, BaseMatching._update_inner, BaseMatching.update = init1, upd1, update1
    BaseMatching._verif_stamped = True
    return True


# the fields of a lattice entry the specification's entries carry (+ the accumulated distances of the distance model)
REPLACED_FIELDS = ('logprob', 'logprobe', 'logprobne', 'dist_obs', 'obs', 'obs_ne', 'prev', 'stop', 'delayed', 'length',
                   'd_s', 'd_o')


def partial_replacements(matcher):
    """{field: count} of in-place replacements that did not take the field from the winning candidate"""
    return dict(getattr(matcher, '_verif_partial', None) or {})


def stamp_of(x):
    mt = getattr(x, 'matcher', None)
    d = getattr(mt, '_verif_stamps', None) if mt is not None else None
    return list(d.get(id(x), [0, 0])) if d else [0, 0]
