------------------------------- MODULE Models -------------------------------
(***************************************************************************)
(* The documented scoring models of the two matcher families, and the      *)
(* trace specification that validates every lattice entry recorded from a  *)
(* real SimpleMatcher / DistanceMatcher against them (C02, C05):           *)
(*                                                                         *)
(*   geometry     the entry's distance / relative position / matched point *)
(*                are the exact nearest-point values of Geometry.tla       *)
(*                (emitting edge: point-segment; emitting node: point;     *)
(*                non-emitting edge: segment-segment; non-emitting node:   *)
(*                node-to-observation-segment);                            *)
(*   emission     -d^2 / (2 sigma^2), sigma_ne for non-emitting states;    *)
(*   transition   Simple:   0 when staying (ln 0.99 when going back on the *)
(*                          edge), ln 0.9 when moving (+ ln 0.5 when going *)
(*                          back to the state before the predecessor);     *)
(*                Distance: -(d_o - d_s)^2 / (2 beta^2) with the curvature *)
(*                          rule for d_s, accumulation of d_o, d_s along a *)
(*                          non-emitting run, beta_ne when either end is   *)
(*                          non-emitting, ln 0.5 for going back on / to an *)
(*                          edge and for not-connected edges;              *)
(*   composition  emitting: lp = lp(prev) + lt + lo, length + 1;           *)
(*                non-emitting: lpe = lpe(prev) + ln 0.75,                 *)
(*                lpne = min(lpne(prev), lt + lo), lp = lpe + lpne.        *)
(*                                                                         *)
(* The third family (Newson-Krumm) shares the composition rules and the     *)
(* geometry; its transition term is -|d_o - d_s| / beta (beta_ne when      *)
(* either end is non-emitting) with d_s by the curvature rule and no       *)
(* accumulation; its emission term ln(2 (1 - Phi(d / sigma))) is not        *)
(* computable in integer arithmetic and is taken from the recorded         *)
(* per-step value, of which only sign and the value at distance 0 are      *)
(* checked.                                                                *)
(*                                                                         *)
(* Numbers recorded from the code are fixed point (MX = 1/1000 for log-    *)
(* probabilities, distances and squared distances; relative positions      *)
(* 1/10000); every formula is a relation with an explicit slack.  Map      *)
(* coordinates are integers and observations lie on a quarter grid, so     *)
(* the geometry is exact in units of 1/4.                                  *)
(***************************************************************************)
EXTENDS Geometry, TLC, Json, IOUtils

Batch == JsonDeserialize(IOEnv.TRACE_FILE)
Runs == Batch.runs
VARIABLES tid, done
mvars == <<tid, done>>
S2(q) == {q[j] : j \in 1..Len(q)}
AbsV(x) == IF x < 0 THEN -x ELSE x

LN09 == -105      \* ln 0.9   in 1/1000
LN099 == -10      \* ln 0.99
LN05 == -693      \* ln 0.5
LN075 == -288     \* ln 0.75

R == Runs[tid]
E == R.entries            \* sequence of entry records; e.prev = index of the predecessor entry (0: none)
P4(n) == R.coord4[n]      \* node -> <<y, x>> in quarter units
O4(t) == R.obs4[t + 1]    \* observation t in quarter units

\* ---- geometry: exact squared distance (quarter units squared, rational) of the state an entry claims
ExactD2(e) ==
  IF e.ne = 0 THEN (IF Len(e.st) = 2 THEN PS2(O4(e.obs), P4(e.st[1]), P4(e.st[2])) ELSE <<D2(O4(e.obs), P4(e.st[1])), 1>>)
  ELSE (IF Len(e.st) = 2 THEN SS2(P4(e.st[1]), P4(e.st[2]), O4(e.obs), O4(e.obs + 1))
        ELSE PS2(P4(e.st[1]), O4(e.obs), O4(e.obs + 1)))
\* recorded d2 (1/1000 of a squared unit) vs exact num / (16 den)
D2OK(e) == LET x == ExactD2(e) IN AbsV(e.d2 * 16 * x[2] - x[1] * 1000) <= 16 * x[2] * (3 + e.d2 \div 2000)
TiOK(e) ==   \* relative position of an emitting edge state: ProjT (1/10000)
  (e.ne = 0 /\ Len(e.st) = 2) =>
     LET t == ProjT(O4(e.obs), P4(e.st[1]), P4(e.st[2])) IN AbsV(e.ti * t[2] - t[1] * 10000) <= 3 * t[2]
PiOK(e) ==   \* matched point of an emitting edge state: ProjPt (recorded in 1/1000 units)
  (e.ne = 0 /\ Len(e.st) = 2) =>
     LET q == ProjPt(O4(e.obs), P4(e.st[1]), P4(e.st[2])) IN
     /\ AbsV(e.pi[1] * 4 * q[3] - q[1] * 1000) <= 12 * q[3]
     /\ AbsV(e.pi[2] * 4 * q[3] - q[2] * 1000) <= 12 * q[3]
DistOK(e) == AbsV(e.dist * e.dist - e.d2 * 1000) <= 8 * e.dist + 2000      \* dist and d2 describe the same number

\* ---- emission: lo = -d2 / (2 sigma^2);  S.sig2 = <<n, d>> = 2 sigma^2 as a rational (sig2ne for non-emitting)
Sig2(e) == IF e.ne = 0 THEN R.sig2 ELSE R.sig2ne
LoModel(e) == -((e.d2 * Sig2(e)[2]) \div Sig2(e)[1])
LoTol(e) == 4 + (2 * Sig2(e)[2]) \div Sig2(e)[1] + AbsV(LoModel(e)) \div 400

\* ---- transition
SameLabel(p, e) == p.st = e.st
Reverse(p, e) == Len(p.st) = 2 /\ Len(e.st) = 2 /\ p.st[1] = e.st[2] /\ p.st[2] = e.st[1]
PrevPrevIs(p, e) == p.prev # 0 /\ E[p.prev].st = e.st
LtSimple(p, e) ==
  IF SameLabel(p, e) THEN (IF R.goback /\ e.tiless THEN LN099 ELSE 0)     \* tiless: position strictly before the predecessor's
  ELSE LN09 + (IF R.goback /\ PrevPrevIs(p, e) THEN LN05 ELSE 0)
\* Distance model: d_s by the curvature rule, accumulation along non-emitting runs
Connected(p, e) == p.st[2] = e.st[1]
DsModel(p, e) == (IF SameLabel(p, e) \/ Reverse(p, e) \/ ~Connected(p, e) THEN e.ca ELSE e.cb1 + e.cb2)
                 + (IF e.ne # 0 THEN p.ds ELSE 0)
DoModel(p, e) == e.cz + (IF e.ne # 0 THEN p.do ELSE 0)
Beta2(p, e) == IF p.ne # 0 \/ e.ne # 0 THEN R.beta2ne ELSE R.beta2         \* 2 beta^2 as a rational
PenDistance(p, e) ==
  IF SameLabel(p, e) THEN (IF R.goback /\ e.tiless THEN LN05 ELSE 0)
  ELSE IF Reverse(p, e) THEN (IF R.goback THEN LN05 ELSE 0)
  ELSE IF ~Connected(p, e) THEN LN05
  ELSE IF R.goback /\ PrevPrevIs(p, e) THEN LN05 ELSE 0
DtC(e) == (e.do - e.ds) \div 10        \* |d_o - d_s| in 1/100
LtDistance(p, e) == -((DtC(e) * DtC(e) * Beta2(p, e)[2]) \div (10 * Beta2(p, e)[1])) + PenDistance(p, e)
LtDistTol(p, e) == 6 + ((2 * AbsV(DtC(e)) + 2) * Beta2(p, e)[2]) \div (5 * Beta2(p, e)[1]) + AbsV(LtDistance(p, e)) \div 100
\* Newson-Krumm: d_s by the curvature rule (same state: along the edge; otherwise to the end of the previous edge and on),
\* no accumulation, transition term -|d_o - d_s| / beta
NK == R.cls = "newsonkrumm"
DsNK(p, e) == IF SameLabel(p, e) THEN e.ca ELSE e.cb1 + e.cb2
NKBeta(p, e) == IF p.ne # 0 \/ e.ne # 0 THEN R.nkbetane ELSE R.nkbeta
LtNK(p, e) == -((AbsV(e.do - e.ds) * NKBeta(p, e)[2]) \div NKBeta(p, e)[1])
LtNKTol(p, e) == 3 + (3 * NKBeta(p, e)[2]) \div NKBeta(p, e)[1]
LtModel(p, e) == IF R.cls = "simple" THEN LtSimple(p, e) ELSE IF NK THEN LtNK(p, e) ELSE LtDistance(p, e)
LtTol(p, e) == IF R.cls = "simple" THEN 2 ELSE IF NK THEN LtNKTol(p, e) ELSE LtDistTol(p, e)
\* emission term used in the composition: the model value, or (Newson-Krumm) the recorded per-step value
Lo(e) == IF NK THEN e.lpe1 ELSE LoModel(e)
\* 2 (1 - Phi(x)) underflows to 0 beyond about 8.3 sigma: the term is minus infinity (recorded as -10^8) and so is
\* every score it enters
IsNegInf(x) == x <= -50000000
NKInfinite(e) == NK /\ (IsNegInf(e.lpe1) \/ (e.prev # 0 /\ (IsNegInf(E[e.prev].lp) \/ (e.ne # 0 /\ IsNegInf(E[e.prev].lpne)))))
NKEmissionOK(e) == NK => (e.lpe1 <= 1 /\ (e.d2 = 0 => AbsV(e.lpe1) <= 1))

\* ---- first failing clause of one entry ("" = conforms)
EntryClause(e) ==
  IF ~D2OK(e) THEN "distance-is-not-the-true-nearest-distance"
  ELSE IF ~DistOK(e) THEN "distance-fields-inconsistent"
  ELSE IF ~TiOK(e) THEN "relative-position-is-not-the-nearest-point"
  ELSE IF ~PiOK(e) THEN "matched-point-is-not-the-nearest-point"
  ELSE IF NKInfinite(e) THEN (IF IsNegInf(e.lp) THEN "" ELSE "minus-infinity-not-propagated")
  ELSE IF ~NKEmissionOK(e) THEN "emission-term"
  ELSE IF e.prev = 0 THEN
       (IF AbsV(e.lp - Lo(e)) > LoTol(e) THEN "first-state-probability-is-not-the-emission-term"
        ELSE IF e.len # 1 THEN "length" ELSE "")
  ELSE LET p == E[e.prev]
           lo == Lo(e)
           lt == LtModel(p, e)
           tol == LoTol(e) + LtTol(p, e) + 3 IN
       IF R.cls = "distance" /\ AbsV(e.lpe1 - lo) > LoTol(e) THEN "emission-term"
       ELSE IF R.cls = "distance" /\ AbsV(e.ds - DsModel(p, e)) > 4 THEN "distance-between-states-(d_s)"
       ELSE IF R.cls = "distance" /\ AbsV(e.do - DoModel(p, e)) > 4 THEN "distance-between-observations-(d_o)"
       ELSE IF NK /\ AbsV(e.ds - DsNK(p, e)) > 4 THEN "distance-between-states-(d_s)"
       ELSE IF NK /\ AbsV(e.do - e.cz) > 4 THEN "distance-between-observations-(d_o)"
       ELSE IF R.cls # "simple" /\ AbsV(e.lpt - lt) > LtTol(p, e) THEN "transition-term"
       ELSE IF e.ne = 0 THEN
            (IF e.len # p.len + 1 THEN "length"
             ELSE IF AbsV(e.lp - (p.lp + lt + lo)) > tol THEN "emitting-step-is-not-previous-plus-transition-plus-emission"
             ELSE "")
       ELSE (IF e.len # p.len THEN "length"
             ELSE IF AbsV(e.lpe - (p.lpe + LN075)) > 3 THEN "non-emitting-length-penalty"
             ELSE IF AbsV(e.lpne - (IF p.lpne < lt + lo THEN p.lpne ELSE lt + lo)) > tol THEN "non-emitting-run-is-not-the-minimum-of-its-step-terms"
             ELSE IF AbsV(e.lp - (e.lpe + e.lpne)) > 3 THEN "non-emitting-probability-is-not-length-penalty-plus-minimum"
             ELSE "")

\* ---- scoring order.  Every entry carries the sequence number of the moment its score was last written (creation or
\* in-place replacement by a better candidate) and the expansion round (expand_now) in which that happened.  In a
\* single pass every entry is final before it is expanded, so a predecessor is always scored before its successors;
\* in an expansion round (widening / extension) an already expanded entry can be replaced in place, and a successor
\* that is not re-scored afterwards keeps a score that belongs to the replaced version (finding F-stale).
ScoredBeforePredecessor(e) == e.prev # 0 /\ e.stamp # 0 /\ E[e.prev].stamp > e.stamp
PredecessorRound(e) == IF e.prev = 0 THEN 0 ELSE E[e.prev].round
\* a fresh run never shows the pattern
FreshOrder == R.fresh => \A j \in 1..Len(E) : ~ScoredBeforePredecessor(E[j])

\* entries to validate: those on the best path (always) and, for fresh runs, every entry of the lattice
RECURSIVE FirstBadEntry(_, _)
FirstBadEntry(idxs, j) ==
  IF j > Len(idxs) THEN <<"", 0>>
  ELSE LET cl == EntryClause(E[idxs[j]]) IN IF cl # "" THEN <<cl, idxs[j]>> ELSE FirstBadEntry(idxs, j + 1)

MInit == tid \in 1..Len(Runs) /\ done = FALSE
MNext == ~done /\ done' = TRUE /\ tid' = tid
MSpec == MInit /\ [][MNext]_mvars
Report == done =>
  LET onpath == FirstBadEntry(R.path, 1)
      all == IF R.fresh THEN FirstBadEntry([j \in 1..Len(E) |-> j], 1) ELSE <<"", 0>> IN
  PrintT(ToJson([tid |-> R.tid, path_clause |-> onpath[1], path_at |-> onpath[2],
                 any_clause |-> all[1], any_at |-> all[2], n |-> Len(E),
                 path_stale |-> (onpath[2] # 0 /\ ScoredBeforePredecessor(E[onpath[2]])),
                 path_stale_round |-> (IF onpath[2] # 0 THEN PredecessorRound(E[onpath[2]]) ELSE 0),
                 fresh_order |-> FreshOrder,
                 \* Lattice.Upsert replaces an entry as a whole; R.partial counts in-place replacements that left a model
                 \* field of the old entry behind
                 replacements_complete |-> (R.partial = 0)]))
=============================================================================
