-------------------------------- MODULE GeoMC --------------------------------
(* Model-checking wrapper for Geometry: enumerates every case on an          *)
(* (N+1) x (N+1) integer grid, checks the specification's own lemmas         *)
(* (so that the closed forms are not trusted blindly) and prints, per case,  *)
(* the exact rational answers as one JSON line for the replay harness.       *)
EXTENDS Geometry, TLC, Json, IOUtils

CONSTANTS MODE,   \* "seg" | "pt" | "path"
          N,      \* grid is 0..N in both axes
          K,      \* sampling resolution of the lemma checks (0 = lemmas off)
          EMIT    \* TRUE: print one JSON line per case
VARIABLE cs

Pts == (0..N) \X (0..N)

\* The case space is split over NPARTS independent TLC processes (TLC computes
\* initial states on one thread); PART / NPARTS come from the environment.
NParts == IF "NPARTS" \in DOMAIN IOEnv THEN atoi(IOEnv.NPARTS) ELSE 1
Part   == IF "PART" \in DOMAIN IOEnv THEN atoi(IOEnv.PART) ELSE 0
PIdx(p) == p[1] * (N + 1) + p[2]
InPart(x) == x % NParts = Part

\* ---- sampled point of segment a-b at parameter k/K: <<ynum, xnum, den>>
Samp(a, b, k) == <<a[1] * K + k * (b[1] - a[1]), a[2] * K + k * (b[2] - a[2]), K, 0>>
AsR(p) == <<p[1], p[2], 1, 0>>

\* ---- lemmas
ProjIsMinimiser(p, a, b) ==
  K > 0 => \A k \in 0..K : RLeq(PS2(p, a, b), Gap2(AsR(p), Samp(a, b, k)))
ProjPtRealises(p, a, b) ==
  LET q == ProjPt(p, a, b) IN REq(Gap2(AsR(p), <<q[1], q[2], q[3], 0>>), PS2(p, a, b))
SSZeroIffInter(a, b, c, d) == RIsZero(SS2(a, b, c, d)) <=> Inter(a, b, c, d)
SSIsLowerBound(a, b, c, d) ==
  K > 0 => \A i \in 0..K : \A j \in 0..K : RLeq(SS2(a, b, c, d), Gap2(Samp(a, b, i), Samp(c, d, j)))
SSSymmetric(a, b, c, d) == /\ REq(SS2(a, b, c, d), SS2(c, d, a, b))
                           /\ REq(SS2(a, b, c, d), SS2(b, a, c, d))

\* ---- path interpolation formulas (C20) evaluated on the specification's own output
Spacings == {<<1, 2>>, <<1, 1>>, <<3, 2>>, <<2, 1>>, <<5, 2>>, <<7, 1>>}
InterpOK(path, ddn, ddd) ==
  LET out == Interp(path, ddn, ddd)
      origIdx == {i \in 1..Len(out) : out[i][4] # 0} IN
  /\ out[1][4] = 1 /\ out[Len(out)][4] = Len(path)
  /\ \A i \in origIdx : <<out[i][1], out[i][2]>> = path[out[i][4]] /\ out[i][3] = 1
  /\ {out[i][4] : i \in origIdx} = 1..Len(path)
  /\ \A i, j \in origIdx : i < j => out[i][4] < out[j][4]
  /\ \A i \in 1..(Len(out) - 1) : RLeq(Gap2(out[i], out[i + 1]), <<ddn * ddn, ddd * ddd>>)
  \* inserted points lie on the segment between the surrounding originals, in order
  /\ \A i \in 1..Len(out) : out[i][4] = 0 =>
        LET nxt == CHOOSE j \in origIdx : j > i /\ \A jj \in origIdx : jj > i => j <= jj
            p == path[out[nxt][4] - 1]  q == path[out[nxt][4]]
            n == out[i][3]
        IN /\ n * p[1] <= Max2(out[i][1], n * p[1]) \* den > 0
           /\ (out[i][1] - n * p[1]) * (q[2] - p[2]) = (out[i][2] - n * p[2]) * (q[1] - p[1])
           /\ Min2(n * p[1], n * q[1]) <= out[i][1] /\ out[i][1] <= Max2(n * p[1], n * q[1])
           /\ Min2(n * p[2], n * q[2]) <= out[i][2] /\ out[i][2] <= Max2(n * p[2], n * q[2])
           /\ (out[i + 1][4] = 0 =>
                 D2(<<out[i][1], out[i][2]>>, <<n * p[1], n * p[2]>>)
                   < D2(<<out[i + 1][1], out[i + 1][2]>>, <<n * p[1], n * p[2]>>))

Paths == UNION {[1..n -> Pts] : n \in 1..3}

Init ==
  \/ /\ MODE = "seg" /\ cs \in {c \in Pts \X Pts \X Pts \X Pts : InPart(PIdx(c[1]) + PIdx(c[3]))}
  \/ /\ MODE = "pt"  /\ cs \in {c \in Pts \X Pts \X Pts : InPart(PIdx(c[1]))}
  \/ /\ MODE = "path" /\ cs \in {c \in Paths \X Spacings : InPart(PIdx(c[1][1]) + Len(c[1]))}
Next == UNCHANGED cs

Lemmas ==
  CASE MODE = "seg" -> /\ SSZeroIffInter(cs[1], cs[2], cs[3], cs[4])
                       /\ SSIsLowerBound(cs[1], cs[2], cs[3], cs[4])
                       /\ SSSymmetric(cs[1], cs[2], cs[3], cs[4])
    [] MODE = "pt"  -> /\ ProjIsMinimiser(cs[1], cs[2], cs[3])
                       /\ ProjPtRealises(cs[1], cs[2], cs[3])
    [] MODE = "path" -> InterpOK(cs[1], cs[2][1], cs[2][2])

Emit ==
  EMIT =>
  CASE MODE = "seg" -> PrintT(ToJson([k |-> "seg", c |-> cs,
                                      ss2 |-> SS2(cs[1], cs[2], cs[3], cs[4]),
                                      cls |-> SegCase(cs[1], cs[2], cs[3], cs[4])]))
    [] MODE = "pt"  -> PrintT(ToJson([k |-> "pt", c |-> cs,
                                      t |-> ProjT(cs[1], cs[2], cs[3]),
                                      ps2 |-> PS2(cs[1], cs[2], cs[3]),
                                      pp |-> ProjPt(cs[1], cs[2], cs[3]),
                                      cls |-> ProjCase(cs[1], cs[2], cs[3])]))
    [] MODE = "path" -> PrintT(ToJson([k |-> "path", p |-> cs[1], dd |-> cs[2],
                                      out |-> Interp(cs[1], cs[2][1], cs[2][2])]))
=============================================================================
