------------------------------ MODULE MapStore ------------------------------
(* A road-map backend as a state machine.                                    *)
(*                                                                            *)
(* Two backends are modelled side by side, driven by the same history of     *)
(* build operations:                                                          *)
(*   - the SQLite map: tables nodes / edges, the two R-tree index tables,     *)
(*     the properties table, and a transaction boundary (working copy `w`     *)
(*     seen by the open connection, committed copy `c` on disk);              *)
(*   - the in-memory map `im`: a dictionary node -> (location, neighbours).   *)
(* Named deviations of the implementation are kept, not idealised away:      *)
(*   SelfNeighbourInMem  - the in-memory map lists a node as its own          *)
(*                         neighbour (and hence a degenerate (l,l) edge);     *)
(*   IndexedListing      - SQLite lists nodes / edges through the index       *)
(*                         tables, so rows inserted with no_index are         *)
(*                         invisible to listings and spatial queries until    *)
(*                         re-indexed;                                        *)
(*   CloseDiscardsPending- closing the connection drops uncommitted rows.     *)
EXTENDS Geometry, TLC

CONSTANTS NodeIds,      \* candidate node ids
          Coord         \* function NodeIds -> grid point (used by the MC wrapper)

VARIABLES w,        \* SQLite working copy  [nodes, nidx, edges, eidx]
          c,        \* SQLite committed copy
          im,       \* in-memory map        [nodes, edges]
          props,    \* [latlon, crs]   (stored in the properties table / the pickle)
          sqprops,  \* what the open SQLite object believes after (re)opening
          improps,
          lost      \* history flag: uncommitted rows were discarded by a close (CloseDiscardsPending)
msvars == <<w, c, im, props, sqprops, improps, lost>>

Empty == [nodes |-> << >>, nidx |-> {}, edges |-> {}, eidx |-> {}]
\* functions are represented as TLC functions with a set domain; << >> is the empty function
Ext(f, k, v) == [x \in (DOMAIN f) \cup {k} |-> IF x = k THEN v ELSE f[x]]
ExtAll(f, S) == [x \in (DOMAIN f) \cup {s[1] : s \in S} |->
                   IF \E s \in S : s[1] = x THEN (CHOOSE s \in S : s[1] = x)[2] ELSE f[x]]

MSInit(pr) ==     \* pr: [latlon |-> BOOLEAN, crs |-> <<crs_lonlat, crs_xy>>]
  /\ w = Empty /\ c = Empty
  /\ im = [nodes |-> << >>, edges |-> {}]
  /\ props = pr /\ sqprops = props /\ improps = props /\ lost = FALSE

Pending == w # c

\* ---- build operations (SQLite flags: no_index, no_commit)
AddNode(n, p, noidx, nocommit) ==
  /\ n \notin DOMAIN w.nodes
  /\ w' = [w EXCEPT !.nodes = Ext(w.nodes, n, p), !.nidx = IF noidx THEN w.nidx ELSE w.nidx \cup {n}]
  /\ c' = IF nocommit THEN c ELSE w'
  /\ im' = [im EXCEPT !.nodes = Ext(im.nodes, n, p)]
  /\ UNCHANGED <<props, sqprops, improps, lost>>

AddNodes(S) ==      \* S: set of <<id, point>> with fresh, pairwise different ids; always indexed and committed
  /\ S # {} /\ \A s \in S : s[1] \notin DOMAIN w.nodes
  /\ \A s, t \in S : s[1] = t[1] => s = t
  /\ w' = [w EXCEPT !.nodes = ExtAll(w.nodes, S), !.nidx = w.nidx \cup {s[1] : s \in S}]
  /\ c' = w'
  /\ im' = [im EXCEPT !.nodes = ExtAll(im.nodes, S)]
  /\ UNCHANGED <<props, sqprops, improps, lost>>

AddEdge(a, b, noidx, nocommit) ==   \* INSERT OR IGNORE: idempotent; may add the missing index row later
  /\ a \in DOMAIN w.nodes /\ b \in DOMAIN w.nodes /\ a # b
  /\ w' = [w EXCEPT !.edges = w.edges \cup {<<a, b>>},
                    !.eidx = IF noidx THEN w.eidx ELSE w.eidx \cup {<<a, b>>}]
  /\ c' = IF nocommit THEN c ELSE w'
  /\ im' = [im EXCEPT !.edges = im.edges \cup {<<a, b>>}]
  /\ UNCHANGED <<props, sqprops, improps, lost>>

AddEdges(S, noidx) ==   \* bulk insert of fresh edges; commits; re-indexes all edges unless no_index
  /\ S # {} /\ S \cap w.edges = {}
  /\ \A e \in S : e[1] \in DOMAIN w.nodes /\ e[2] \in DOMAIN w.nodes /\ e[1] # e[2]
  /\ w' = [w EXCEPT !.edges = w.edges \cup S, !.eidx = IF noidx THEN w.eidx ELSE w.edges \cup S]
  /\ c' = w'
  /\ im' = [im EXCEPT !.edges = im.edges \cup S]
  /\ UNCHANGED <<props, sqprops, improps, lost>>

ReindexNodes == /\ w' = [w EXCEPT !.nidx = DOMAIN w.nodes] /\ c' = w'
                /\ UNCHANGED <<im, props, sqprops, improps, lost>>
ReindexEdges == /\ w' = [w EXCEPT !.eidx = w.edges] /\ c' = w'
                /\ UNCHANGED <<im, props, sqprops, improps, lost>>
Commit == c' = w /\ UNCHANGED <<w, im, props, sqprops, improps, lost>>

\* close the SQLite file and open it again / pickle the in-memory map and load it again
Reopen == /\ w' = c /\ sqprops' = props /\ improps' = props
          /\ lost' = (lost \/ Pending)
          /\ UNCHANGED <<c, im, props>>

\* ---- observables (what the query API returns), SQLite
SqSize(s) == Cardinality(DOMAIN s.nodes)
SqLabels(s) == DOMAIN s.nodes
SqNbrs(s, n) == {e[2] : e \in {e \in s.edges : e[1] = n}}
SqEdgeNbrs(s, e) == {<<e[2], x>> : x \in SqNbrs(s, e[2])}
SqAllNodes(s) == s.nidx \cap DOMAIN s.nodes            \* IndexedListing
SqAllEdges(s) == s.eidx \cap s.edges
InBB(p, bb) == bb[1] <= p[1] /\ p[1] <= bb[3] /\ bb[2] <= p[2] /\ p[2] <= bb[4]
SqNodesInBB(s, bb) == {n \in SqAllNodes(s) : InBB(s.nodes[n], bb)}
SetMin(S) == CHOOSE x \in S : \A y \in S : x <= y
SetMax(S) == CHOOSE x \in S : \A y \in S : y <= x
BBOf(s, ids) == IF ids = {} THEN << >>
                ELSE <<SetMin({s.nodes[n][1] : n \in ids}), SetMin({s.nodes[n][2] : n \in ids}),
                       SetMax({s.nodes[n][1] : n \in ids}), SetMax({s.nodes[n][2] : n \in ids})>>
SqBB(s) == BBOf(s, DOMAIN s.nodes)      \* the extent of the nodes table

\* ---- observables, in-memory map
ImSize == Cardinality(DOMAIN im.nodes)
ImLabels == DOMAIN im.nodes
ImNbrs(n) == {e[2] : e \in {e \in im.edges : e[1] = n}} \cup {n}    \* SelfNeighbourInMem
ImEdgeNbrs(e) == {<<e[2], x>> : x \in ImNbrs(e[2])}
ImAllNodes == DOMAIN im.nodes
ImAllEdges == im.edges
ImNodesInBB(bb) == {n \in DOMAIN im.nodes : InBB(im.nodes[n], bb)}
ImBB == BBOf(im, DOMAIN im.nodes)

\* ---- spatial queries: declarative ("exhaustive scan").  r2 = <<num, den>> is the squared radius.
NodesWithin(nodes, ids, p, r2) == {n \in ids : D2(p, nodes[n]) * r2[2] < r2[1]}
EdgesWithin(nodes, es, p, r2) == {e \in es : RLess(PS2(p, nodes[e[1]], nodes[e[2]]), r2)}
SqNodesCloseTo(s, p, r2) == NodesWithin(s.nodes, SqAllNodes(s), p, r2)
SqEdgesCloseTo(s, p, r2) == EdgesWithin(s.nodes, SqAllEdges(s), p, r2)
ImNodesCloseTo(p, r2) == NodesWithin(im.nodes, DOMAIN im.nodes, p, r2)
ImEdgesCloseTo(p, r2) == EdgesWithin(im.nodes, im.edges, p, r2)

\* ---- design-level properties
FullyIndexed == w.nidx = DOMAIN w.nodes /\ w.eidx = w.edges
\* C12: the two backends hold the same abstract content, and agree on every listing once indexed
SameContent == /\ DOMAIN w.nodes = DOMAIN im.nodes
               /\ \A n \in DOMAIN w.nodes : w.nodes[n] = im.nodes[n]
               /\ w.edges = im.edges
BackendsAgree == ~lost =>
  /\ SameContent
  /\ \A n \in DOMAIN w.nodes : ImNbrs(n) = SqNbrs(w, n) \cup {n}
  /\ FullyIndexed => /\ SqAllNodes(w) = ImAllNodes /\ SqAllEdges(w) = ImAllEdges /\ SqBB(w) = ImBB
\* C18: reopening a map with nothing pending changes no observable
ReopenPreserves == [][(w' = c /\ c' = c /\ ~Pending) => w' = w]_msvars
PropsSurvive == sqprops = props /\ improps = props
IndexWithinTable == w.nidx \subseteq DOMAIN w.nodes /\ w.eidx \subseteq w.edges
=============================================================================
