CONSTANTS Graphs = {"line", "tri", "dead", "selfl", "pair", "star4", "ring4"} T = 5 QE = {0, 1, 2, 3} QN = {0, 1, 2} NodeModes = {TRUE, FALSE} NEs = {TRUE, FALSE}
  Widths = {0, 1, 2} Cuts = {"none", "dist", "init", "prob", "both"} MaxOps = 6 SAMPLE = 2 Moves = {"m11", "m10"} EMIT = TRUE
  ExhGraphs = {} Debugs = {FALSE} REUSE = TRUE
SPECIFICATION Spec
INVARIANT EmitBehaviour
CHECK_DEADLOCK FALSE
