"""bin/check entry point:  check <Cxx> [--tier quick|thorough] [--seed N] [--replay file]"""
import argparse, importlib, json, os, sys, traceback
from . import common

MODS = {
    'C13': 'geo', 'C20': 'geo', 'C14': 'geo',
    'C11': 'maps', 'C12': 'maps', 'C18': 'maps',
    'C01': 'lattice', 'C03': 'lattice', 'C04': 'lattice', 'C05': 'lattice', 'C06': 'lattice',
    'C07': 'lattice', 'C08': 'lattice', 'C09': 'lattice', 'C02': 'lattice',
    'C10': 'embed', 'C15': 'embed', 'C16': 'embed', 'C17': 'embed', 'C19': 'embed',
}


def main():
    ap = argparse.ArgumentParser()
    ap.add_argument('pid')
    ap.add_argument('--tier', default=os.environ.get('VERIF_TIER', 'quick'), choices=['quick', 'thorough'])
    ap.add_argument('--seed', type=int, default=int(os.environ.get('VERIF_SEED', '0') or 0))
    ap.add_argument('--replay')
    a = ap.parse_args()
    try:
        common.import_repo()
        mod = importlib.import_module('harness.' + MODS[a.pid])
        if a.replay:
            case = json.load(open(a.replay))
            sys.exit(mod.replay(a.pid, case))
        chk = common.Check(a.pid, a.tier, a.seed)
        mod.run(chk)
        sys.exit(chk.finish())
    except common.MachineryError as ex:
        print(f'MACHINERY-ERROR property={a.pid}: {ex}', flush=True)
        sys.exit(2)
    except SystemExit:
        raise
    except Exception:
        traceback.print_exc()
        print(f'MACHINERY-ERROR property={a.pid}: unexpected exception', flush=True)
        sys.exit(2)


if __name__ == '__main__':
    main()
