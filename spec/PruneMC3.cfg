CONSTANTS MaxLen = 3 Delays = {0, 1, 2} Ws = {1, 2, 3} Uptos = {0, 1}
CONSTANT Lps <- LpsDef
CONSTANT Thrs <- ThrsDef
INIT Init
NEXT Next
INVARIANT Equivalent
INVARIANT SelectionAfterPrune
