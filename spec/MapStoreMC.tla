----------------------------- MODULE MapStoreMC -----------------------------
(* Exhaustive exploration of build histories over a few nodes (design level). *)
EXTENDS MapStore
CONSTANT MaxSteps
CoordDef == (1 :> <<0, 0>>) @@ (2 :> <<0, 2>>) @@ (3 :> <<1, 1>>)
VARIABLE steps
vars == <<w, c, im, props, sqprops, improps, lost, steps>>
Pairs == {e \in NodeIds \X NodeIds : e[1] # e[2]}
Init == /\ \E ll \in BOOLEAN : MSInit([latlon |-> ll, crs |-> <<"a", "b">>])
        /\ steps = 0
Step ==
  \/ \E n \in NodeIds, ni, nc \in BOOLEAN : AddNode(n, Coord[n], ni, nc)
  \/ \E S \in (SUBSET NodeIds) \ {{}} : AddNodes({<<n, Coord[n]>> : n \in S})
  \/ \E e \in Pairs, ni, nc \in BOOLEAN : AddEdge(e[1], e[2], ni, nc)
  \/ \E S \in (SUBSET Pairs) \ {{}}, ni \in BOOLEAN : Cardinality(S) <= 2 /\ AddEdges(S, ni)
  \/ ReindexNodes \/ ReindexEdges \/ Commit \/ Reopen
Next == steps < MaxSteps /\ Step /\ steps' = steps + 1
Spec == Init /\ [][Next]_vars
ReopenOK == [][(w' = c /\ c' = c /\ w = c) => w' = w]_vars
\* vacuity guards: interesting situations are reachable
ReachPendingLoss == ~(steps > 0 /\ w # c /\ Cardinality(DOMAIN w.nodes) > Cardinality(DOMAIN c.nodes))
=============================================================================
