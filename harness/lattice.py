"""C01 .. C09: the matcher core.

Per property:
  1. design level: TLC model-checks the property formula on spec/Lattice.tla (LatticeMC, invariants only);
  2. spec -> code: TLC enumerates instances x histories (LatticeMC with EMIT) and the harness replays
     every behaviour on the real BaseMatcher (abstract binding, integer tables, bit-exact);
     seeded random larger instances are added by the harness;
  3. code -> spec: every recorded run (result, lattice_best, full lattice, expansion snapshots, companion
     runs) is validated by TLC (spec/LatticeTrace.tla), which evaluates the property formulas on the
     recorded observables with its own oracles, and compares the lattice with the specification's (drift).
"""
import json, os, random, hashlib
from . import common, absm, geom
from .common import run_tlc

INF = absm.INF
NOAUX = {'present': False, 'empty': True, 'idx': 0, 'lps': [], 'path': []}


# ------------------------------------------------------------------ recording
def aux_of(inst, cf, n, unique=False):
    obs, m = absm.run_history(inst, cf, [('match', n)], unique=unique, snapshots=True)
    o = obs[0]
    if o['exc']:
        return dict(NOAUX, present=True, empty=True, idx=-5, lps=[], path=[])
    empty = len(o['path']) == 0
    lps = []
    if not empty:
        col = o['lat'][o['idx']]
        lps = [e['lp'] for e in (col[0] if col else []) if not e['stop']]
    return {'present': True, 'empty': empty, 'idx': o['idx'], 'lps': lps,
            'path': [[[e['st'], e['obs'], e['ne']], e['lp']] for e in o['path']]}


class Snapper:
    """run-time wrappers (installed only while LEUVENMAPMATCHING_VERIF=1) that snapshot each layer at the
    moment it is expanded: rows of (log-probability, delayed, stop)."""

    def __init__(self, m, conv=None):
        self.m, self.snaps = m, []
        self.conv = conv or absm.iv
        if os.environ.get(common.GUARD) != '1':
            return
        ms, ni, ne = m._match_states, m._match_non_emitting_states_inner, m._match_non_emitting_states_end

        def w_ms(obs_idx, prev_lattice=None, **kw):
            if prev_lattice is None:
                self.snap(obs_idx - 1, 0, 'E', m.lattice[obs_idx - 1].values(0))
            return ms(obs_idx, prev_lattice=prev_lattice, **kw)

        def w_ni(cur_lattice, obs_idx, obs, obs_next, nb_ne, lattice_best, lattice_ne):
            if nb_ne > 1:
                self.snap(obs_idx, nb_ne - 1, 'NI', cur_lattice.values())
            return ni(cur_lattice, obs_idx, obs, obs_next, nb_ne, lattice_best, lattice_ne)

        def w_ne(cur_lattice, obs_idx, obs_next, lattice_best, expand=False):
            vals = list(cur_lattice.values())
            self.snap(obs_idx - 1, vals[0].obs_ne if vals else 0, 'NE', vals)
            return ne(cur_lattice, obs_idx, obs_next, lattice_best, expand=expand)

        m._match_states, m._match_non_emitting_states_inner, m._match_non_emitting_states_end = w_ms, w_ni, w_ne

    def snap(self, c, k, kind, values):
        values = list(values)
        if self.conv == 'rank':       # dense ranks of the exact floats: order and ties are preserved exactly
            order = sorted(set(x.logprob for x in values))
            rk = {v: i for i, v in enumerate(order)}
            rows = [[rk[x.logprob], x.delayed, bool(x.stop)] for x in values]
        else:
            rows = [[self.conv(x.logprob), x.delayed, bool(x.stop)] for x in values]
        if len(rows) > 1:
            self.snaps.append({'c': c, 'k': k, 'now': self.m.expand_now, 'W': self.m.max_lattice_width or 0,
                               'kind': kind, 'rows': rows})

    def take(self):
        s, self.snaps = self.snaps, []
        return s


def record_abs(tid, inst, cf, ops, unique, want_aux):
    """run one history on the real BaseMatcher (integer tables) and record everything LatticeTrace needs"""
    cf = dict(cf)
    cf.setdefault('slack', 0)
    cf.setdefault('tables', True)
    cf.setdefault('oracle', True)
    cf.setdefault('debug', False)
    m = absm.mk_matcher(inst, cf)
    sn = Snapper(m)
    events = []
    W = cf['W']
    widened = False
    for op, arg in ops:
        if op == 'widen':
            W = arg
            widened = True
        obs, _ = absm.run_history(inst, cf, [(op, arg)], unique=unique, matcher=m)
        o = obs[0]
        n = arg if op != 'widen' else len(m.path)
        aux = {'neoff': NOAUX, 'unpruned': NOAUX, 'wide': NOAUX, 'oneshot': NOAUX}
        cur = dict(cf, W=W)
        if op == 'match' and not o['exc']:
            if 'C06' in want_aux and cf['ne'] and not W and not cf.get('secondOrder'):
                aux['neoff'] = aux_of(inst, dict(cur, ne=False), n)
            if 'C07' in want_aux and W:
                aux['unpruned'] = aux_of(inst, dict(cur, W=0), n)
                aux['wide'] = aux_of(inst, dict(cur, W=1000), n)
        if op == 'extend' and not widened and not o['exc'] and 'C08' in want_aux:
            aux['oneshot'] = aux_of(inst, cur, n)
        ev = {'op': op, 'arg': arg, 'w': W, 'unique': unique, 'exc': o['exc'], 'states': o['states'] or [],
              'idx': o['idx'], 'early': o['early'], 'path': o['path'], 'pstamp': o['pstamp'], 'partial': o['partial'], 'lat': o['lat'], 'now': o['now'],
              'onlynodes': o['onlynodes'], 'onlynodes_exc': o['onlynodes_exc'], 'snaps': sn.take(), 'aux': aux,
              'dangling': o.get('dangling', [])}
        if o['states'] is None and not o['exc']:
            ev['exc'] = 'match returned None instead of a state list'
        events.append(ev)
    return {'tid': tid, 'inst': inst.to_json(), 'cf': cf, 'events': events}


# ------------------------------------------------------------------ instance sources
def behaviours_from_tlc(chk, cfgname, seed, timeout=3600, simulate=None):
    if simulate:
        r = run_tlc('LatticeMC', cfgname, workers=8, timeout=timeout, seed=seed, simulate=simulate, depth=7)
        chk.tlc(r, f'LatticeMC {cfgname} -simulate {simulate}: deep random behaviours for replay')
    else:
        r = run_tlc('LatticeMC', cfgname, workers=16, timeout=timeout, seed=seed)
        chk.tlc(r, f'LatticeMC {cfgname}: instances x histories enumerated for replay')
    # keep maximal histories only (a state prints the history that led to it; prefixes are other states)
    groups = {}
    for b in r.json:
        cf0 = dict(b['cf'], W=b['hist'][0]['w'])
        key = hashlib.sha1(json.dumps([b['inst'], {k: cf0[k] for k in sorted(cf0)}], sort_keys=True).encode()).hexdigest()
        groups.setdefault(key, []).append((b, cf0))
    out = []
    for key, bs in groups.items():
        seqs = [tuple((h['op'], h['arg']) for h in b['hist']) for b, _ in bs]
        for (b, cf0), s in zip(bs, seqs):
            if any(len(t) > len(s) and t[:len(s)] == s for t in seqs):
                continue
            out.append((absm.inst_from_tlc(b['inst']), cf0, list(s), b['hist']))
    return out


def rand_instance(rng, maxn=6, maxT=6, allow=('ne', 'W', 'nodes', 'cuts', 'linked', 'skip', 'second'), p_edges=0.6, p_linked=0.2):
    n = rng.randint(2, maxn)
    nodes = list(range(1, n + 1))
    nbrs = {i: [] for i in nodes}
    for i in nodes:
        for j in nodes:
            if i != j and rng.random() < rng.choice([0.3, 0.5]):
                nbrs[i].append(j)
        if rng.random() < 0.25:
            nbrs[i].append(i)         # self-listed neighbour (InMemMap lists every node as its own neighbour)
        rng.shuffle(nbrs[i])
    if rng.random() < 0.3:            # InMemMap style: every node lists itself last
        for i in nodes:
            if i not in nbrs[i]:
                nbrs[i].append(i)
    T = rng.randint(1, maxT)
    only_edges = True if 'nodes' not in allow else rng.random() < p_edges
    edges = [(a, b) for a in nodes for b in nbrs[a] if a != b]
    states = edges + ([] if only_edges else [(a,) for a in nodes])
    vals = rng.choice([[0, -2], [0, -1, -3], [0, -1, -2, -5], [0, 0, -1, -4]])
    dvals = rng.choice([[0, 1, 2, 3], [1, 2], [0, 2, 4]])
    tab = {}
    for st in states:
        tab[st] = {'dE': [rng.choice(dvals) for _ in range(T)], 'lE': [rng.choice(vals) for _ in range(T)],
                   'dN': [rng.choice(dvals) for _ in range(T)], 'lN': [rng.choice(vals) for _ in range(T)],
                   'ti': [rng.choice([1, 1, 1, 0, 2]) for _ in range(T)]}
    linked, skip = {}, {}
    if 'linked' in allow and only_edges and len(edges) >= 2 and rng.random() < p_linked:
        for _ in range(rng.randint(1, 3)):
            a, b = rng.sample(edges, 2)
            linked.setdefault(a, []).append(b)
    if 'skip' in allow and rng.random() < 0.2:
        for st in states:
            for t in range(T):
                if rng.random() < 0.3:
                    skip[(st, t)] = True
    tr = {'move': rng.choice([0, -1, -1]), 'moveNE': rng.choice([0, -1, -1, -2]), 'back': rng.choice([-1, -2])}
    inst = absm.Inst(nodes, nbrs, T, tab, tr, {k: v for k, v in linked.items()}, skip)
    cuts = [(INF, INF, [-INF, 1])]
    if 'cuts' in allow:
        cuts += [(2, 2, [-INF, 1]), (3, 2, [-INF, 1]), (INF, 3, [-3, 2]), (2, 3, [-5, 2]), (INF, INF, [-2, 1])]
    md, mdi, mlp = rng.choice(cuts)
    cf = {'onlyEdges': only_edges, 'ne': ('ne' in allow and rng.random() < 0.6),
          'W': (rng.choice([0, 1, 2, 3]) if 'W' in allow else 0), 'maxDist': md, 'maxDistInit': mdi, 'minlp': mlp,
          'neLen': -1, 'neMax': 100, 'secondOrder': ('second' in allow and rng.random() < 0.25)}
    return inst, cf


def chain_instance(rng, allow):
    """a family built to force long non-emitting runs: a path graph whose consecutive observations are
    near roads several edges apart (only non-emitting states can bridge them)."""
    n = rng.randint(4, 7)
    nodes = list(range(1, n + 1))
    bid = rng.random() < 0.5
    nbrs = {i: [] for i in nodes}
    for i in nodes[:-1]:
        nbrs[i].append(i + 1)
        if bid:
            nbrs[i + 1].append(i)
    if rng.random() < 0.4:
        for i in nodes:
            nbrs[i].append(i)
    only_edges = True if 'nodes' not in allow else rng.random() < 0.7
    edges = [(a, b) for a in nodes for b in nbrs[a] if a != b]
    states = edges + ([] if only_edges else [(a,) for a in nodes])
    T = rng.randint(2, 4)
    # the observation t sits near position pos[t] along the chain
    if rng.random() < 0.6:      # two observations far apart: a long non-emitting run is the only good bridge
        T = rng.choice([2, 3])
        pos = [1, n - 1] if T == 2 else rng.choice([[1, n - 1, n - 1], [1, 1, n - 1], [1, n // 2 + 1, n - 1]])
    else:
        pos = sorted(rng.sample(range(1, n), min(T, n - 1)))
        while len(pos) < T:
            pos.append(pos[-1])
    tab = {}
    for st in states:
        a = st[0]
        tab[st] = {'dE': [], 'lE': [], 'dN': [], 'lN': [], 'ti': []}
        for t in range(T):
            near = abs(a - pos[t]) if len(st) == 2 and st[-1] > st[0] else abs(a - pos[t]) + 1
            tab[st]['dE'].append(min(near, 3))
            tab[st]['lE'].append(0 if near == 0 else -rng.choice([3, 4, 6]) * near)
            between = len(st) == 2 and t + 1 < T and pos[t] <= a <= pos[t + 1]
            tab[st]['dN'].append(0 if between else rng.choice([1, 2]))
            tab[st]['lN'].append(-rng.choice([0, 1, 2]) if between else -rng.choice([2, 5]))
            tab[st]['ti'].append(1)
    tr = {'move': rng.choice([0, -1]), 'moveNE': rng.choice([0, -1, -2]), 'back': -1}
    inst = absm.Inst(nodes, nbrs, T, tab, tr)
    mlp = rng.choice([[-INF, 1], [-2, 1], [-3, 1], [-4, 1], [-5, 2]]) if 'cuts' in allow else [-INF, 1]
    cf = {'onlyEdges': only_edges, 'ne': True, 'W': (rng.choice([0, 0, 1, 2, 3]) if 'W' in allow else 0),
          'maxDist': INF, 'maxDistInit': INF, 'minlp': mlp, 'neLen': -1, 'neMax': 100,
          'secondOrder': ('second' in allow and rng.random() < 0.2)}
    return inst, cf


def planted_instance(rng, allow):
    """a planted walk with decoys: one legal walk gets good emissions at every observation, and at every
    observation a decoy state that shares a node with the walk's state is locally even better but leads nowhere
    good.  The optimum is (almost always) the planted walk, and it is lost as soon as the search confuses,
    merges or drops states."""
    n = rng.randint(3, 5)
    nodes = list(range(1, n + 1))
    nbrs = {i: [] for i in nodes}
    for i in nodes:
        for j in nodes:
            if i != j and rng.random() < 0.55:
                nbrs[i].append(j)
        if not nbrs[i]:
            nbrs[i].append(rng.choice([j for j in nodes if j != i]))
    if rng.random() < 0.5:
        for i in nodes:
            nbrs[i].append(i)
    only_edges = True if 'nodes' not in allow else rng.random() < 0.35
    edges = [(a, b) for a in nodes for b in nbrs[a] if a != b]
    states = edges + ([] if only_edges else [(a,) for a in nodes])
    T = rng.randint(3, 5)

    def moves(s):
        if only_edges:
            return [s] + [e for e in edges if e[0] == s[1] and e[1] != s[1]]
        if len(s) == 2:
            return [s, (s[1],)]
        return [(b,) for b in nbrs[s[0]]] + [(s[0], b) for b in nbrs[s[0]] if b != s[0]]
    w = [rng.choice(edges if only_edges else [(a,) for a in nodes])]
    while len(w) < T:
        w.append(rng.choice(moves(w[-1])))
    tab = {st: {'dE': [1] * T, 'lE': [-rng.choice([3, 4, 6]) for _ in range(T)], 'dN': [1] * T,
                'lN': [-rng.choice([2, 3]) for _ in range(T)], 'ti': [1] * T} for st in states}
    for t in range(T):
        tab[w[t]]['lE'][t] = -1
        dec = [s for s in states if s != w[t] and (s[0] == w[t][0] or s[-1] == w[t][-1])]
        if dec:
            tab[rng.choice(dec)]['lE'][t] = 0
    inst = absm.Inst(nodes, nbrs, T, tab, {'move': rng.choice([0, -1]), 'moveNE': -1, 'back': -1})
    cf = {'onlyEdges': only_edges, 'ne': False, 'W': 0, 'maxDist': INF, 'maxDistInit': INF, 'minlp': [-INF, 1],
          'neLen': -1, 'neMax': 100, 'secondOrder': False}
    return inst, cf


def rand_ops(rng, T, cf, kinds):
    k0 = rng.randint(1, T) if 'extend' in kinds else T
    ops = [('match', k0)]
    n, W = k0, cf['W']
    for _ in range(rng.randint(0, 3)):
        ch = []
        if 'extend' in kinds and n < T:
            ch.append('extend')
        if 'widen' in kinds and W:
            ch.append('widen')
        if not ch:
            break
        op = rng.choice(ch)
        if op == 'extend':
            n = rng.randint(n + 1, T)
            ops.append(('extend', n))
        else:
            W = W + rng.randint(1, 2)
            ops.append(('widen', W))
    if rng.random() < 0.2:
        # the matcher object has been used before: a fresh match() of some prefix (which may have stopped early, been
        # pruned, ...) precedes the history; nothing of it may leak into the later calls
        ops = [('match', rng.randint(1, T))] + ops
    return ops


# ------------------------------------------------------------------ validation
def validate(chk, runs, pids, label, workers=16, timeout=3000):
    path = os.path.join(common.scratch(), f'lattrace_{label}.json')
    with open(path, 'w') as f:
        json.dump(common.nonull({'pids': sorted(pids), 'runs': runs}), f)
    r = run_tlc('LatticeTrace', 'LatticeTrace.cfg', workers=workers, timeout=timeout, env={'TRACE_FILE': path})
    chk.tlc(r, f'LatticeTrace: {len(runs)} recorded runs validated ({label})')
    os.remove(path)
    v = {x['tid']: x['v'] for x in r.json}
    missing = [run['tid'] for run in runs if run['tid'] not in v]
    if missing:
        raise common.MachineryError(f'no verdict for runs {missing[:5]} ({label}): {r.tail[-2500:]}')
    return v


GALLOW = ('ne', 'W', 'nodes', 'cuts', 'goback')
PLAN = {
    # pid: (MC config for the design-level check, EMIT config for replay (quick, thorough), random runs (quick, thorough),
    #       allowed features of random instances, op kinds, companion runs)
    'C01': dict(mc='LatticeMC_C01', emit='LatticeMC_C01e', rnd=(1600, 12000), allow=('nodes', 'cuts', 'linked'), kinds=(), aux=()),
    'C02': dict(mc='LatticeMC_C02', emit='LatticeMC_ALLe', rnd=(700, 8000), allow=('ne', 'W', 'nodes', 'cuts', 'linked', 'skip', 'second'), kinds=('extend', 'widen'), aux=()),
    'C03': dict(mc='LatticeMC_C03', emit='LatticeMC_C03e', rnd=(400, 6000), allow=('ne', 'W', 'nodes', 'cuts', 'linked', 'skip', 'second'), kinds=('extend', 'widen'), aux=()),
    'C04': dict(mc='LatticeMC_C04', emit='LatticeMC_ALLe', rnd=(800, 8000), allow=('ne', 'W', 'nodes', 'cuts', 'linked', 'skip', 'second'), kinds=('extend', 'widen'), aux=()),
    'C05': dict(mc='LatticeMC_C05', emit='LatticeMC_ALLe', rnd=(400, 6000), allow=('ne', 'W', 'nodes', 'cuts', 'linked', 'skip', 'second'), kinds=('extend', 'widen'), aux=()),
    'C06': dict(mc='LatticeMC_C06', emit='LatticeMC_C06e', rnd=(3600, 14000), allow=('ne', 'nodes', 'cuts', 'linked', 'skip'), kinds=(), aux=('C06',)),
    'C07': dict(mc='LatticeMC_C07', emit='LatticeMC_C07e', rnd=(400, 6000), allow=('ne', 'W', 'nodes', 'cuts', 'linked', 'skip', 'second'), kinds=('widen',), aux=('C07',)),
    'C08': dict(mc='LatticeMC_C08', emit='LatticeMC_C08e', rnd=(400, 6000), allow=('ne', 'W', 'nodes', 'cuts', 'linked', 'skip', 'second'), kinds=('extend',), aux=('C08',)),
    'C09': dict(mc='LatticeMC_C09', emit='LatticeMC_ALLe', rnd=(1500, 10000), allow=('ne', 'W', 'nodes', 'cuts', 'linked', 'skip', 'second'), kinds=('extend', 'widen'), aux=()),
}


def nontrivial(pid, run):
    evs = run['events']
    e0 = evs[0]
    if pid == 'C01':
        return len(e0['lat']) > 1 and sum(len(col[0]) if col else 0 for col in e0['lat']) > len(e0['lat'])
    if pid == 'C06':
        return any(len(col) > 1 and any(col[1:]) for col in e0['lat'])
    if pid == 'C07':
        return any(e['delayed'] > 0 for col in e0['lat'] for L in col for e in L)
    if pid == 'C08':
        return any(e['op'] == 'extend' for e in evs)
    if pid == 'C02':      # a non-emitting run of length >= 2 on the best path, or any path of >= 3 states
        p = evs[-1]['path']
        return any(e['ne'] >= 2 for e in p) or len(p) >= 3
    if pid == 'C05':
        return run['cf']['maxDist'] < INF or run['cf']['minlp'][0] > -INF
    return len(evs[-1]['path']) >= 2


def run(chk):
    pid, thorough = chk.pid, chk.tier == 'thorough'
    plan = PLAN[pid]
    rng = random.Random(chk.seed * 104729 + int(pid[1:]))
    # 1. design level
    # (thorough tier: the larger scope is explored breadth-first for at most 10 minutes; every state reached is checked)
    r = run_tlc('LatticeMC', plan['mc'] + ('_T' if thorough else '') + '.cfg', workers=16, timeout=600 if thorough else 3000,
                seed=chk.seed + 1, allow_timeout=thorough)
    chk.tlc(r, f"LatticeMC {plan['mc']}: property formula as invariant on the specification (design level)"
               + (' [time limit reached: partial exploration]' if r.timed_out else ''))
    if r.invariant_violated:
        raise common.MachineryError(f'design-level violation of {pid} in the specification: {r.tail[-3000:]}')
    if pid == 'C07':
        rp = run_tlc('PruneMC', 'PruneMC.cfg' if thorough else 'PruneMC3.cfg', workers=8, timeout=3000)
        chk.tlc(rp, 'PruneMC: declarative Prune == the operational sort / tie-extension / threshold algorithm, and the '
                    'selection clause holds after pruning, for EVERY layer up to length 3 (thorough: 4)')
        if rp.invariant_violated:
            raise common.MachineryError('Prune lemma violated: ' + rp.tail[-2000:])
    # 2. behaviours: TLC-enumerated + seeded random
    runs = []
    tid = 0
    beh = behaviours_from_tlc(chk, plan['emit'] + ('_T' if thorough else '') + '.cfg', chk.seed + 1)
    spec_hist = {}
    for inst, cf0, ops, hist in beh:
        tid += 1
        cf0 = dict(cf0, labels=['id', 'zero', 'z2', 'str', 'z3', 'neg', 'zero', 'z2'][tid % 8])
        runs.append(record_abs(tid, inst, cf0, ops, unique=(tid % 3 == 0), want_aux=plan['aux']))
    if thorough and pid in ('C02', 'C03', 'C04', 'C05', 'C07', 'C08', 'C09'):
        for inst, cf0, ops, hist in behaviours_from_tlc(chk, 'LatticeMC_SIMe.cfg', chk.seed + 1, timeout=1500, simulate='num=40'):
            tid += 1
            cf0 = dict(cf0, labels=['id', 'zero', 'z2', 'str'][tid % 4])
            runs.append(record_abs(tid, inst, cf0, ops, unique=(tid % 3 == 0), want_aux=plan['aux']))
    n_tlc = len(runs)
    for _ in range(plan['rnd'][thorough]):
        if 'ne' in plan['allow'] and rng.random() < 0.3:
            inst, cf = chain_instance(rng, plan['allow'])
        else:
            inst, cf = rand_instance(rng, maxn=6 if thorough else 5, maxT=6 if thorough else 5, allow=plan['allow'],
                                     p_edges=(0.3 if pid == 'C06' else 0.8 if pid == 'C04' else 0.6),
                                     p_linked=(0.7 if pid == 'C04' else 0.2))
            if pid == 'C04' and inst.linked:
                cf['ne'] = rng.random() < 0.8
        if pid == 'C06':
            cf['ne'] = True
        if pid == 'C07' and not cf['W']:
            cf['W'] = rng.choice([1, 2, 3])
        if pid in ('C07', 'C09', 'C02') and cf['ne'] and rng.random() < 0.4:
            cf['neMax'] = rng.choice([1, 2, 3])       # bound on the depth of a non-emitting run (non_emitting_states_maxnb)
        ops = rand_ops(rng, inst.T, cf, plan['kinds'])
        if pid == 'C01' and rng.random() < 0.6:
            # planted walk with decoys (node-and-edge states in most of them; labels incl. a falsy one)
            inst, cf = planted_instance(rng, ('nodes',))
            ops = rand_ops(rng, inst.T, cf, plan['kinds'])
        if pid == 'C06' and rng.random() < 0.5:
            inst, cf = planted_instance(rng, ('nodes',))
            cf['ne'] = True
            for st in inst.states:          # cheap non-emitting steps so that detours compete with the planted walk
                for t in range(inst.T):
                    inst.lN[(st, t)] = -rng.choice([0, 0, 1, 2])
                    inst.dN[(st, t)] = rng.choice([0, 1, 1, 2])
            ops = rand_ops(rng, inst.T, cf, plan['kinds'])
        if 'widen' in plan['kinds'] and 'W' in plan['allow'] and rng.random() < (0.6 if pid in ('C09', 'C02') else 0.35):
            # widening stress: start with width 1 on a dense graph and widen step by step
            inst, cf = rand_instance(rng, maxn=6, maxT=6, allow=tuple(a for a in plan['allow'] if a != 'cuts'))
            while inst.T < 4:
                inst, cf = rand_instance(rng, maxn=6, maxT=6, allow=tuple(a for a in plan['allow'] if a != 'cuts'))
            cf['W'] = 1
            ops = [('match', inst.T)] + [('widen', w) for w in rng.choice([[2, 3, 5], [2, 4], [2, 3], [2, 3, 4, 6]])]
        if pid == 'C07' and cf['ne'] and rng.random() < 0.5:
            cf['neMax'] = rng.choice([1, 1, 2, 3])       # (also after the widening-stress instance replaced cf)
        cf['labels'] = rng.choice(['id', 'zero', 'z2', 'z3', 'str', 'neg'] if pid != 'C01' else ['zero', 'z2', 'z3', 'zero', 'z2', 'z3', 'id', 'str'])
        if pid in ('C09', 'C03', 'C04', 'C05') and rng.random() < 0.3:
            cf['debug'] = True      # package logger at DEBUG: stopped candidates are materialised in the lattice
        tid += 1
        runs.append(record_abs(tid, inst, cf, ops, unique=rng.random() < 0.4, want_aux=plan['aux']))
    if pid == 'C02':
        # the recorded instance of finding F-stale (integer tables) is part of every run: it must keep matching the
        # finding's signature (and nothing else)
        fp = os.path.join(common.VERIF, 'findings', 'F-stale-abs.replay.json')
        if os.path.exists(fp):
            with open(fp) as f:
                fc = json.load(f)['case']
            tid += 1
            runs.append(record_abs(tid, absm.inst_from_tlc(fc['inst']), fc['cf'], [tuple(o) for o in fc['ops']],
                                   unique=False, want_aux=plan['aux']))
    # 3. trace validation in batches.  Conformance with the specification's own lattice (DRIFT, a
    #    diagnostic) is computed for every TLC-enumerated behaviour and, in the quick tier, for the
    #    first 120 (thorough: 1500) random runs (the specification's big-step evaluation dominates the cost).
    nontriv = sum(nontrivial(pid, x) for x in runs)
    # the DRIFT evaluation (TLC steps Lattice.DoMatch itself) dominates the cost: at most 450 (thorough: 1500)
    # TLC-enumerated behaviours and 120 (thorough: 500) random runs get it
    cap = min(n_tlc, 1500 if thorough else 450)
    nrd = 500 if thorough else 120
    with_drift = runs[:cap] + runs[n_tlc:n_tlc + nrd]
    without = runs[cap:n_tlc] + runs[n_tlc + nrd:]
    parts = [(with_drift, {pid, 'DRIFT'}), (without, {pid})]
    chk.cov['drift_evaluated_runs'] = len(with_drift)
    bi = 0
    for part, want in parts:
      for b0 in range(0, len(part), 1500):
        batch = part[b0:b0 + 1500]
        bi += 1
        verdicts = validate(chk, batch, want, f'{pid}_{bi}')
        for run_ in batch:
            v = verdicts[run_['tid']]
            for x in v.get(pid, []):
                sig = abs_sig(run_, x)
                if x['clause'] == 'path-score-stale-after-expansion':
                    # F-stale is behaviour the specification itself has: the case is attributed to the finding only if
                    # Lattice.DoMatch reproduces the recorded lattice (and scoring rounds) of this very history
                    vd = v if 'DRIFT' in want else validate(chk, [run_], {'DRIFT'}, f'{pid}_stale')[run_['tid']]
                    sig['specification_reproduces_lattice'] = not vd.get('DRIFT')
                chk.violation(f'recorded run rejected at event {x["at"]} '
                              f'({run_["events"][x["at"] - 1]["op"]} {run_["events"][x["at"] - 1]["arg"]}): clause {x["clause"]}',
                              {'kind': 'abs', 'inst': run_['inst'], 'cf': run_['cf'],
                               'ops': [[e['op'], e['arg']] for e in run_['events']],
                               'unique': run_['events'][0]['unique'], 'clause': x['clause'], 'at': x['at']},
                              sig=sig)
            for x in v.get('DRIFT', []):
                chk.spec_drift(f'run {run_["tid"]}: {x["clause"]} at event {x["at"]}')
    # 4. the real Simple / Distance matchers on geometric instances
    plan.setdefault('gallow', GALLOW)
    ng = {'C03': (150, 1500), 'C04': (400, 3000), 'C05': (150, 1500), 'C06': (400, 2000), 'C07': (120, 1200),
          'C08': (120, 1200), 'C09': (150, 1500)}.get(pid)
    if ng:
        geo_part(chk, pid, rng, ng[thorough], plan)
    if pid in ('C02', 'C05'):
        model_part(chk, pid, rng, 4000 if thorough else 1200)
    if pid == 'C04':
        views_part(chk, rng, 3000 if thorough else 500)
    if pid == 'C01':
        oracle_part(chk, rng, 3000 if thorough else 500)
    chk.count('abs-runs', evaluations=len(runs), nontrivial=nontriv, traces=len(runs), tlc_enumerated=n_tlc,
              events=sum(len(x['events']) for x in runs))
    ex = next((x for x in runs if nontrivial(pid, x)), runs[0])
    chk.sample({'inst': ex['inst'], 'cf': ex['cf'], 'ops': [[e['op'], e['arg']] for e in ex['events']],
                'result': [[e['idx'], e['states']] for e in ex['events']]})
    chk.rule(RULES[pid])
    chk.assume('abstract binding: the real BaseMatcher driven through a BaseMap subclass and logprob_trans / '
               'logprob_obs overrides with integer tables (documented extension points); '
               'ne_length_factor_log and min_logprob_norm set to exactly representable values')
    chk.assume('geometry and the two probability models are covered by the geometric families (C02/C05 B-part) and C13')


# ------------------------------------------------------------------ real matchers (Simple / Distance)
def geo_aux(inst, cf, n, conc):
    evs, _ = geom.run_geo(inst, cf, conc, ops=[('match', n)], full=True)
    o = evs[0]
    if o['exc']:
        return dict(NOAUX, present=True, empty=True, idx=-5)
    empty = len(o['path']) == 0
    lps = []
    if not empty:
        col = o['lat'][o['idx']]
        lps = [e['lp'] for e in (col[0] if col else []) if not e['stop']]
    return {'present': True, 'empty': empty, 'idx': o['idx'], 'lps': lps,
            'path': [[[e['st'], e['obs'], e['ne']], e['lp']] for e in o['path']]}


def record_geo(tid, inst, cf, ops, unique, want_aux):
    conc = geom.Conc()
    evs, m = geom.run_geo(inst, cf, conc, ops=ops, unique=unique, full=True, snapper=lambda mm: Snapper(mm, conv='rank'))
    events = []
    widened = False
    W = cf['W']
    for o in evs:
        op, arg = o['op'], o['arg']
        if op == 'widen':
            W, widened = arg, True
        n = arg if op != 'widen' else len(inst['path'])
        aux = {'neoff': NOAUX, 'unpruned': NOAUX, 'wide': NOAUX, 'oneshot': NOAUX}
        cur = dict(cf, W=W)
        if op == 'match' and not o['exc']:
            if 'C06' in want_aux and cf['ne'] and not W and not cf['avoid_goingback']:
                aux['neoff'] = geo_aux(inst, dict(cur, ne=False), n, conc)
            if 'C07' in want_aux and W:
                aux['unpruned'] = geo_aux(inst, dict(cur, W=0), n, conc)
                aux['wide'] = geo_aux(inst, dict(cur, W=1000), n, conc)
        if op == 'extend' and not widened and not o['exc'] and 'C08' in want_aux:
            aux['oneshot'] = geo_aux(inst, cur, n, conc)
        ev = {k: o[k] for k in ('op', 'arg', 'w', 'unique', 'exc', 'states', 'idx', 'early', 'path', 'pstamp', 'partial', 'lat', 'now',
                                'onlynodes', 'onlynodes_exc', 'snaps')}
        ev['aux'] = aux
        ev['dangling'] = absm_dangling_geo(m) if o is evs[-1] else []
        events.append(ev)
    return {'tid': tid, 'inst': geom.graph_tables(inst), 'cf': geom.spec_cf(cf), 'events': events,
            'geo': {'inst': inst, 'cf': cf}}


def absm_dangling_geo(m):
    out = []
    if not m.lattice:
        return out
    for c in range(len(m.lattice)):
        for L in m.lattice[c].o:
            for x in L.values():
                for p in x.prev:
                    col = m.lattice.get(p.obs)
                    stored = col.o[p.obs_ne].get(p.key) if (col is not None and p.obs_ne < len(col.o)) else None
                    if stored is not p:
                        out.append([str(x.key), str(p.key)])
                if len(x.prev) > 1:
                    out.append([str(x.key), 'several-best-predecessors'])
            for k, x in L.items():
                want = (x.edge_m.l1, x.obs, x.obs_ne) if x.edge_m.l2 is None else (x.edge_m.l1, x.edge_m.l2, x.obs, x.obs_ne)
                if tuple(k) != want:
                    out.append([str(k), 'filed-under-another-key'])
    return out


def geo_ops(rng, T, cf, kinds):
    return rand_ops(rng, T, {'W': cf['W']}, kinds)


def geo_part(chk, pid, rng, n, plan):
    """table-free clauses on the real Simple / Distance matchers (graph, alignment, walk, cut-offs, selection,
    relational properties, well-formedness)"""
    runs = []
    for i in range(n):
        inst = geom.gen_instance(rng, maxn=6, maxT=5, G=rng.choice([2, 3, 4]), p_linked=(0.8 if pid == 'C04' else 0.25),
                                 family=(rng.choice(['random', 'street']) if pid == 'C04' and i % 2 else None))
        allow = tuple(a for a in ('ne', 'W', 'nodes', 'cuts', 'goback') if a in plan['gallow'])
        cf = geom.gen_config(rng, allow=allow)
        if pid == 'C04' and inst['linked']:
            cf['only_edges'] = True          # linked (parallel) edges are moves between edge states
            if 'linked-sibling' in inst['family'] and rng.random() < 0.7:
                cf.update(max_dist=None, max_dist_init=None, min_prob_norm=None, W=0)
        if pid == 'C06':
            cf.update(ne=True, W=0, avoid_goingback=False)
            if cf['cls'] == 'simple' and i % 3:
                cf['only_edges'] = False        # node states: the node branches of the non-emitting helpers
        if pid == 'C07' and not cf['W']:
            cf['W'] = rng.choice([1, 2, 3])
        if pid in ('C07', 'C09') and cf['ne'] and rng.random() < 0.4:
            cf['ne_max'] = rng.choice([1, 1, 2, 3])       # a bounded non-emitting depth: the last layer is reached
        ops = geo_ops(rng, len(inst['path']), cf, plan['kinds'])
        if pid == 'C09' and i % 3 == 0:
            # continue-with-distance after an early stop (edge states, a distance cut-off), then re-match
            cf.update(only_edges=True, max_dist=rng.choice([0.75, 1.0, 1.5]), max_dist_init=None)
            if len(inst['path']) >= 3:          # an outlier somewhere after the first observation forces an early stop
                k = rng.randint(1, len(inst['path']) - 1)
                inst['path'][k] = [inst['path'][k][0] + 7.0, inst['path'][k][1] - 6.0]
            T = len(inst['path'])
            ops = [('match', T), ('cwd', T), ('rematch', T)] + ([('widen', cf['W'] + 2)] if cf['W'] else [])
        runs.append(record_geo(100000 + i, inst, cf, ops, rng.random() < 0.4, plan['aux']))
    verdicts = validate(chk, [{k: v for k, v in r.items() if k != 'geo'} for r in runs], {pid}, f'{pid}_geo')
    nontriv = 0
    for run_ in runs:
        nontriv += nontrivial(pid, run_) if pid not in ('C05',) else (run_['geo']['cf']['max_dist'] is not None or run_['geo']['cf']['min_prob_norm'] is not None)
        for x in verdicts[run_['tid']].get(pid, []):
            clause = x['clause']
            chk.violation(f'real {run_["geo"]["cf"]["cls"]} matcher: recorded run rejected at event {x["at"]}: clause {clause}',
                          {'kind': 'geo', 'inst': run_['geo']['inst'], 'cf': run_['geo']['cf'],
                           'ops': [[e['op'], e['arg']] for e in run_['events']], 'unique': run_['events'][0]['unique'],
                           'clause': clause, 'at': x['at']}, sig={'clause': clause, 'family': 'geo'})
    chk.count('real-matcher-runs', evaluations=len(runs), nontrivial=nontriv, traces=len(runs),
              continue_with_distance_calls=sum(1 for r in runs for e in r['events'] if e['op'] == 'cwd'))


def oracle_part(chk, rng, n):
    """C01 on the real Simple / Distance matchers: weights extracted by evaluating the model functions directly,
    optimum computed by TLC's walk enumeration, compared with the recorded result of match()."""
    runs = []
    for i in range(n):
        inst = geom.gen_instance(rng, maxn=5, maxT=4, G=rng.choice([2, 3]))
        cf = geom.gen_config(rng, allow=('nodes', 'cuts'))
        cf.update(ne=False, W=0, avoid_goingback=False)
        if i % 4 == 3 and inst['edges']:
            # there-and-back traces: the best walk returns to the state before the previous one (a first-order model has
            # no memory of it), with a slightly worse alternative nearby
            a, b = rng.choice(inst['edges'])
            pa, pb = inst['coord'][a], inst['coord'][b]
            jit = lambda q: [q[0] + rng.randint(-1, 1) / 4.0, q[1] + rng.randint(-1, 1) / 4.0]
            inst['path'] = [jit(pa), jit(pb), jit(pa)] + ([jit(pb)] if rng.random() < 0.4 else [])
            if cf['cls'] == 'simple' and rng.random() < 0.7:
                cf['only_edges'] = False
        if i % 2:
            cf['max_dist_init'] = None if cf['max_dist'] is None else 1.0e6      # unbounded initial radius in half of the runs
        itab, scf = geom.extract_tables(inst, cf)
        evs, m = geom.run_geo(inst, cf, geom.Conc(), full=True)
        o = evs[0]
        ev = {k: o[k] for k in ('op', 'arg', 'w', 'unique', 'exc', 'states', 'idx', 'early', 'path', 'pstamp', 'partial', 'lat', 'now',
                                'onlynodes', 'onlynodes_exc', 'snaps')}
        ev['aux'] = {'neoff': NOAUX, 'unpruned': NOAUX, 'wide': NOAUX, 'oneshot': NOAUX}
        ev['dangling'] = []
        runs.append({'tid': 400000 + i, 'inst': itab, 'cf': scf, 'events': [ev], 'geo': {'inst': inst, 'cf': cf}})
    verdicts = validate(chk, [{k: v for k, v in r.items() if k != 'geo'} for r in runs], {'C01', 'SKIP'}, 'C01_real')
    skipped = nontriv = 0
    for run_ in runs:
        v = verdicts[run_['tid']]
        skipped += bool(v.get('SKIP'))
        nontriv += len(run_['events'][0]['path']) >= 2
        for x in v.get('C01', []):
            chk.violation(f'real {run_["geo"]["cf"]["cls"]} matcher: {x["clause"]} (optimum by walk enumeration over the extracted weights)',
                          {'kind': 'geo-oracle', 'inst': run_['geo']['inst'], 'cf': run_['geo']['cf'], 'clause': x['clause']},
                          sig={'clause': x['clause'], 'family': 'geo-oracle',
                               'start_candidate_dropped_by_prefilter': prefilter_dropped_start(run_)})
    chk.count('real-matcher-optimality', evaluations=len(runs), nontrivial=nontriv, traces=len(runs), skipped_nonrobust=skipped)


def prefilter_dropped_start(run_):
    """signature of F-inmem-prefilter seen through the matcher: an admissible start edge (within the initial radius) is
    missing from the first lattice column and its start node lies outside the box around the first observation"""
    inst, cf = run_['geo']['inst'], run_['geo']['cf']
    if not cf['only_edges']:
        return False
    mdi = cf['max_dist_init'] if cf['max_dist_init'] is not None else cf['max_dist']
    if mdi is None:
        return False
    o0 = inst['path'][0]
    lat0 = run_['events'][0]['lat']
    have = {tuple(e['st']) for e in (lat0[0][0] if lat0 and lat0[0] else [])}
    for row in run_['inst']['tab']:
        st = tuple(row['st'])
        if len(st) == 2 and row['dE'][0] == 0 and st not in have:
            a = inst['coord'][st[0]]
            if abs(a[0] - o0[0]) > mdi or abs(a[1] - o0[1]) > mdi:
                return True
    return False


def views_part(chk, rng, n):
    """read-only views of finished matches (beyond the listed properties): recorded answers of the real library
    validated by TLC against spec/Views.tla; mismatches are reported as EXTRA-DRIFT (never as a violation of a
    listed property)."""
    recs = []
    for i in range(n):
        inst = geom.gen_instance(rng, maxn=6, maxT=5, G=rng.choice([2, 3, 4]))
        cf = geom.gen_config(rng)
        ops = geo_ops(rng, len(inst['path']), cf, ('extend', 'widen') if i % 3 == 0 else ())
        rec = geom.views_record(300000 + i, inst, cf, ops, unique=(i % 2 == 0))
        if rec is not None:
            recs.append(rec)
    path = os.path.join(common.scratch(), 'views.json')
    with open(path, 'w') as f:
        json.dump(common.nonull({'runs': recs}), f)
    r = run_tlc('Views', 'Views.cfg', workers=16, timeout=1800, env={'TRACE_FILE': path})
    chk.tlc(r, f'Views: {len(recs)} finished matches, read-only views validated (extra coverage)')
    os.remove(path)
    bad = [x for x in r.json if x['clause']]
    for x in bad[:5]:
        print(f'EXTRA-DRIFT view={x["clause"]} run={x["tid"]} (a read-only view differs from spec/Views.tla; not a listed property)', flush=True)
    chk.cov['views'] = {'validated': len(r.json), 'mismatches': len(bad)}


MODEL_GEOMETRY = ('distance-is-not-the-true-nearest-distance', 'distance-fields-inconsistent',
                  'relative-position-is-not-the-nearest-point', 'matched-point-is-not-the-nearest-point')


def model_part(chk, pid, rng, n):
    """C02 / C05 on the real matchers: every lattice entry of fresh runs and every best-path state after any
    history is validated by TLC against the documented scoring models and the exact geometry (spec/Models.tla)."""
    recs, meta = [], {}
    for i in range(n):
        inst = geom.gen_instance(rng, maxn=6, maxT=5, G=rng.choice([2, 3, 4]))
        cf = geom.gen_config(rng)
        ops = geo_ops(rng, len(inst['path']), cf, ('extend', 'widen') if i % 3 == 0 else ())
        if pid == 'C02' and i % 6 == 5:
            # expansion stress: a narrow lattice with non-emitting states, widened / extended several times
            cf.update(ne=True, W=rng.choice([1, 1, 2, 3]))
            T = len(inst['path'])
            kk, w = rng.randint(min(2, T), T), cf['W']
            ops = [('match', kk)]
            for _ in range(rng.randint(1, 3)):
                if kk < T and rng.random() < 0.5:
                    kk = rng.randint(kk + 1, T)
                    ops.append(('extend', kk))
                else:
                    w += rng.randint(1, 2)
                    ops.append(('widen', w))
        k = -14 if i % 4 == 1 else 0
        rec, exc = geom.model_record(200000 + i, inst, cf, ops, k=k)
        if rec is None:
            continue
        recs.append(rec)
        meta[rec['tid']] = (inst, cf, ops)
    fp = os.path.join(common.VERIF, 'findings', 'F-stale.replay.json')
    if pid == 'C02' and os.path.exists(fp):          # the recorded instance of finding F-stale is part of every run
        with open(fp) as f:
            fc = json.load(f)['case']
        finst = dict(fc['inst'], coord={int(a): b for a, b in fc['inst']['coord'].items()})
        fops = [tuple(o) for o in fc['ops']]
        rec, exc = geom.model_record(200000 + n, finst, fc['cf'], fops)
        if rec is not None:
            recs.append(rec)
            meta[rec['tid']] = (finst, fc['cf'], fops)
    path = os.path.join(common.scratch(), f'models_{pid}.json')
    with open(path, 'w') as f:
        json.dump(common.nonull({'runs': recs}), f)
    r = run_tlc('Models', 'Models.cfg', workers=16, timeout=3000, env={'TRACE_FILE': path})
    chk.tlc(r, f'Models: {len(recs)} recorded runs of the real matchers, {sum(len(x["entries"]) for x in recs)} lattice entries validated')
    os.remove(path)
    got = {x['tid']: x for x in r.json}
    if len(got) != len(recs):
        raise common.MachineryError('Models: missing verdicts: ' + r.tail[-1500:])
    nontriv = 0
    for rec in recs:
        v = got[rec['tid']]
        nontriv += len(rec['path']) >= 2
        inst, cf, ops = meta[rec['tid']]
        for clause, at, where in ((v['path_clause'], v['path_at'], 'best path'), (v['any_clause'], v['any_at'], 'lattice entry')):
            if not clause:
                continue
            if pid == 'C05' and clause not in MODEL_GEOMETRY:
                continue
            if pid == 'C05' and where != 'best path':
                continue
            e = rec['entries'][at - 1]
            chk.violation(f'real {cf["cls"]} matcher, {where} state {e["st"]} obs {e["obs"]} ne {e["ne"]}: {clause}',
                          {'kind': 'model', 'inst': inst, 'cf': cf, 'ops': [list(o) for o in ops], 'clause': clause,
                           'entry': e, 'prev': rec['entries'][e['prev'] - 1] if e['prev'] else None},
                          sig=model_sig(v, clause, where, ops))
            break
        if rec['fresh'] and not v.get('fresh_order', True):
            print(f'SPEC-DRIFT models run={rec["tid"]}: in a single pass an entry was scored before its predecessor was final '
                  f'(Models.FreshOrder)', flush=True)
            chk.cov['fresh_order_drift'] = chk.cov.get('fresh_order_drift', 0) + 1
    chk.count('model-validated-runs', evaluations=len(recs), nontrivial=nontriv, traces=len(recs),
              lattice_entries=sum(len(x['entries']) for x in recs))


RULES = {
    'C01': 'instances = graphs x integer weight tables x cut-off configurations (TLC-enumerated + seeded random), emitting only, no width, first order; oracle = explicit enumeration of all admissible walks in TLA+; non-trivial = more than one candidate in some column',
    'C02': 'histories of match/extend/widen on random and TLC-enumerated instances (all configurations); oracle = ModelScore recomputed in TLA+ from the tables along the recorded best path; non-trivial = best path with at least two states',
    'C03': 'as C02; formulas Aligned / states-vs-path / index clauses evaluated by TLC on every recorded return; non-trivial = best path with at least two states',
    'C04': 'as C02; LegalMove written from the property text, IsWalk + nodes-only view evaluated by TLC on every recorded return; non-trivial = best path with at least two states',
    'C05': 'as C02; CutoffsHonoured evaluated by TLC on every recorded best path, including exact-boundary distances (dist == max_dist kept, dist == max_dist_init dropped); non-trivial = some cut-off configured',
    'C06': 'fresh runs with non-emitting states on, companion real run with them off; non-trivial = at least one non-emitting layer populated',
    'C07': 'fresh runs with width W + companion real runs (unpruned, W=1000) + widening chains; every expansion snapshot recorded by run-time wrappers is checked by TLC (SnapOK); non-trivial = at least one candidate postponed',
    'C08': 'every history match(k0) extend(k1).. compared with a companion one-shot real run; non-trivial = at least one extension',
    'C09': 'WellFormed evaluated by TLC on the full projected lattice recorded after every public call; non-trivial = best path with at least two states',
}


def slim_run(run_):
    return None


def abs_sig(run_, x):
    return {'clause': x['clause'],
            'after_expansion_call': any(e['op'] != 'match' for e in run_['events'][:x['at']]),
            'predecessor_replaced_after_scoring': x['clause'] == 'path-score-stale-after-expansion',
            'in_place_replacements_complete': x['clause'] == 'path-score-stale-after-expansion'
                                              or not any(e.get('partial') for e in run_['events'][:x['at']])}


def model_sig(v, clause, where, ops):
    return {'clause': clause, 'where': where, 'after_widening': any(o[0] == 'widen' for o in ops),
            'after_expansion_call': any(o[0] in ('widen', 'extend', 'rematch', 'cwd') for o in ops),
            # Models.tla: the predecessor was replaced in place, in an expansion round, after this entry was scored
            # (signature of F-stale)
            'predecessor_replaced_after_scoring': bool(where == 'best path' and v.get('path_stale')
                                                       and v.get('path_stale_round', 0) >= 1),
            # every in-place replacement took all model fields from the winning candidate (Lattice.Upsert)
            'in_place_replacements_complete': bool(v.get('replacements_complete', True)),
            'specification_reproduces_lattice': 'n/a (real scoring models: no table-level lattice)'}


def replay(pid, case):
    c = case['case']
    chk = common.Check(pid, 'quick', 0)
    kind = c.get('kind', 'abs')
    if kind == 'model':
        inst = c['inst']
        inst['coord'] = {int(k): v for k, v in inst['coord'].items()}
        rec, exc = geom.model_record(1, inst, c['cf'], [tuple(o) for o in c['ops']])
        path = os.path.join(common.scratch(), 'models_replay.json')
        with open(path, 'w') as f:
            json.dump(common.nonull({'runs': [rec]}), f)
        r = run_tlc('Models', 'Models.cfg', workers=2, timeout=600, env={'TRACE_FILE': path})
        v = r.json[0]
        bad = v['path_clause'] or v['any_clause']
        if bad and not (pid == 'C05' and bad not in MODEL_GEOMETRY):
            k = chk.match_known(model_sig(v, bad, 'best path' if v['path_clause'] else 'lattice entry', c['ops']))
            if k is not None:
                print(f"KNOWN-FINDING: property={pid} {k['id']}: {k['what']}")
                print('replay: only recorded findings')
                return 0
            print(f'VIOLATION property={pid} replay=(given)   # {bad}')
            return 1
        print('replay: every lattice entry conforms to the documented model')
        return 0
    if kind in ('geo', 'geo-oracle'):
        inst = c['inst']
        inst['coord'] = {int(k): v for k, v in inst['coord'].items()}
        if kind == 'geo':
            run_ = record_geo(1, inst, c['cf'], [tuple(x) for x in c['ops']], c.get('unique', False), PLAN[pid]['aux'])
            want = {pid}
        else:
            itab, scf = geom.extract_tables(inst, c['cf'])
            evs, m = geom.run_geo(inst, c['cf'], geom.Conc(), full=True)
            o = evs[0]
            ev = {k: o[k] for k in ('op', 'arg', 'w', 'unique', 'exc', 'states', 'idx', 'early', 'path', 'pstamp', 'partial', 'lat', 'now',
                                    'onlynodes', 'onlynodes_exc', 'snaps')}
            ev['aux'] = {'neoff': NOAUX, 'unpruned': NOAUX, 'wide': NOAUX, 'oneshot': NOAUX}
            ev['dangling'] = []
            run_ = {'tid': 1, 'inst': itab, 'cf': scf, 'events': [ev], 'geo': {'inst': inst, 'cf': c['cf']}}
            want = {'C01', 'SKIP'}
        v = validate(chk, [{k: x for k, x in run_.items() if k != 'geo'}], want, 'replay')[1]
        bad = 0
        for x in v.get(pid, []):
            sig = {'clause': x['clause'], 'family': kind}
            if kind == 'geo-oracle':
                sig['start_candidate_dropped_by_prefilter'] = prefilter_dropped_start(run_)
            k = chk.match_known(sig)
            if k is not None:
                print(f"KNOWN-FINDING: property={pid} {k['id']}: {k['what']}")
            else:
                bad += 1
                print(f'VIOLATION property={pid} replay=(given)   # clause {x["clause"]} at event {x["at"]}')
        if not bad:
            print('replay: trace accepted' if not v.get(pid) else 'replay: only recorded findings')
        return 1 if bad else 0
    inst = absm.inst_from_tlc(c['inst'])
    run_ = record_abs(1, inst, c['cf'], [tuple(x) for x in c['ops']], c.get('unique', False), PLAN[pid]['aux'])
    v = validate(chk, [run_], {pid}, 'replay')[1]
    bad = 0
    for x in v.get(pid, []):
        sig = abs_sig(run_, x)
        if x['clause'] == 'path-score-stale-after-expansion':
            sig['specification_reproduces_lattice'] = not validate(chk, [run_], {'DRIFT'}, 'replay_stale')[1].get('DRIFT')
        k = chk.match_known(sig)
        if k is not None:
            print(f"KNOWN-FINDING: property={pid} {k['id']}: {k['what']}")
        else:
            bad += 1
            print(f'VIOLATION property={pid} replay=(given)   # clause {x["clause"]} at event {x["at"]}')
    if bad:
        return 1
    print('replay: trace accepted' if not v.get(pid) else 'replay: only recorded findings')
    return 0
