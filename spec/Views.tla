------------------------------- MODULE Views -------------------------------
(***************************************************************************)
(* Read-only views of a finished match (beyond the listed properties):     *)
(*   path_all_distances, get_path(only_closest), the nodes-only view with  *)
(*   jumps, path_pred_distance, path_distance, get_matching(int).          *)
(* Each is specified as a function of the best path / the lattice, and a   *)
(* batch of recorded answers of the real library is validated against it.  *)
(* Distances are fixed point 1/1000; the harness logs, per consecutive     *)
(* pair of best-path states, the three map distances between the recorded  *)
(* matched points (direct; via the end node of the previous edge) and the  *)
(* distance between the recorded observation points - the specification    *)
(* chooses which of them the view has to add up.                           *)
(***************************************************************************)
EXTENDS LatticeProps, TLC, Json, IOUtils

Batch == JsonDeserialize(IOEnv.TRACE_FILE)
Runs == Batch.runs
VARIABLES tid, done
vvars == <<tid, done>>
AbsV(x) == IF x < 0 THEN -x ELSE x
R == Runs[tid]
P == R.path          \* best path entries: st, obs, ne, lp, dist, ti (1/10000), ca, cb1, cb2, cz (pair components)
Sts == [j \in 1..Len(P) |-> P[j].st]

\* nodes-only view with jumps allowed: an unconnected edge contributes both of its nodes
RECURSIVE OnlyNodesJ(_, _, _, _, _)
OnlyNodesJ(sts, j, prevState, prevNode, acc) ==
  IF j > Len(sts) THEN acc
  ELSE LET s == sts[j] IN
       IF s = prevState THEN OnlyNodesJ(sts, j + 1, prevState, prevNode, acc)
       ELSE IF ~IsEdge(s) THEN
            (IF s[1] # prevNode THEN OnlyNodesJ(sts, j + 1, s, s[1], Append(acc, s[1]))
             ELSE OnlyNodesJ(sts, j + 1, s, prevNode, acc))
       ELSE IF s[1] = prevNode THEN
            (IF s[2] # prevNode THEN OnlyNodesJ(sts, j + 1, s, s[2], Append(acc, s[2]))
             ELSE OnlyNodesJ(sts, j + 1, s, prevNode, acc))
       ELSE IF s[2] = prevNode THEN
            (IF s[1] # prevNode THEN OnlyNodesJ(sts, j + 1, s, s[1], Append(acc, s[1]))
             ELSE OnlyNodesJ(sts, j + 1, s, prevNode, acc))
       ELSE OnlyNodesJ(sts, j + 1, s, s[2], acc \o <<s[1], s[2]>>)
OnlyNodesWithJumps(sts) ==
  IF Len(sts) = 0 THEN << >>
  ELSE IF IsEdge(sts[1]) THEN OnlyNodesJ(sts, 2, sts[1], sts[1][2], <<sts[1][1], sts[1][2]>>)
  ELSE OnlyNodesJ(sts, 2, sts[1], sts[1][1], <<sts[1][1]>>)

\* get_path(only_closest = TRUE): drop the first node when the first match lies in the second half of its edge
GetPath(sts, nodesView) ==
  IF Len(nodesView) = 0 THEN << >>
  ELSE IF P[1].ti > 5000 THEN Tail(nodesView) ELSE nodesView

\* path_pred_distance: along the map, over the connection node when two different connected edges follow each other
RECURSIVE PredDist(_)
PredDist(j) ==
  IF j > Len(P) THEN 0
  ELSE LET a == P[j - 1]  b == P[j] IN
       (IF a.st # b.st /\ IsEdge(a.st) /\ a.st[2] = b.st[1] THEN b.cb1 + b.cb2 ELSE b.ca) + PredDist(j + 1)
RECURSIVE ObsDist(_)
ObsDist(j) == IF j > Len(P) THEN 0 ELSE P[j].cz + ObsDist(j + 1)

\* get_matching(c): the most probable live entry of column c (first of equals in layer order)
\* (the library iterates a hash-ordered set there, so only the probability of the chosen entry is determined)
BestOfColumn(col) ==
  LET es == Live(FlattenSeq(col)) IN
  IF Len(es) = 0 THEN -100000000
  ELSE CHOOSE v \in {es[j].lp : j \in 1..Len(es)} : \A j \in 1..Len(es) : es[j].lp <= v

Clause ==
  IF Len(P) = 0 THEN ""
  ELSE IF R.views.all_distances # [j \in 1..Len(P) |-> P[j].dist] THEN "path_all_distances"
  ELSE IF R.views.onlynodes_exc = "" /\ R.views.get_path # GetPath(Sts, OnlyNodes(IF R.unique THEN UniqueStates(Sts) ELSE Sts)) THEN "get_path(only_closest)"
  ELSE IF R.views.withjumps # GetPath(Sts, OnlyNodesWithJumps(IF R.unique THEN UniqueStates(Sts) ELSE Sts)) THEN "path_pred_onlynodes_withjumps"
  ELSE IF AbsV(R.views.pred_distance - (IF Len(P) = 1 THEN 0 ELSE PredDist(2))) > 2 * Len(P) THEN "path_pred_distance"
  ELSE IF AbsV(R.views.obs_distance - (IF Len(P) = 1 THEN 0 ELSE ObsDist(2))) > 2 * Len(P) THEN "path_distance"
  ELSE IF \E c \in 1..Len(R.lat) : R.views.best_of_column[c] # BestOfColumn(R.lat[c]) THEN "get_matching(column)"
  ELSE ""

VInit == tid \in 1..Len(Runs) /\ done = FALSE
VNext == ~done /\ done' = TRUE /\ tid' = tid
VSpec == VInit /\ [][VNext]_vvars
Report == done => PrintT(ToJson([tid |-> R.tid, clause |-> Clause]))
=============================================================================
