------------------------------ MODULE Geometry ------------------------------
(* Exact planar geometry on integer coordinates.  A point is <<y, x>> (the   *)
(* library's (lat, lon) / (y, x) order; nothing here depends on the order).  *)
(* No square root is taken: distances are compared as squared distances,     *)
(* which are integers or rationals <<num, den>>.                             *)
EXTENDS Rat, Sequences, FiniteSets

D2(p, q) == (p[1] - q[1]) * (p[1] - q[1]) + (p[2] - q[2]) * (p[2] - q[2])
Dot(p, a, b) == (p[1] - a[1]) * (b[1] - a[1]) + (p[2] - a[2]) * (b[2] - a[2])
\* twice the signed area of (a, b, c)
Orient(a, b, c) == (b[1] - a[1]) * (c[2] - a[2]) - (b[2] - a[2]) * (c[1] - a[1])

(* Projection parameter of p on the segment a-b, clamped to [0,1].           *)
(* A zero-length segment projects everything on a at parameter 0.            *)
ProjT(p, a, b) ==
  LET l2 == D2(a, b) IN
  IF l2 = 0 THEN <<0, 1>>
  ELSE LET d == Dot(p, a, b) IN
       IF d <= 0 THEN <<0, 1>> ELSE IF d >= l2 THEN <<1, 1>> ELSE <<d, l2>>

\* which case of the projection: "zero" | "before" | "inside" | "after"
ProjCase(p, a, b) ==
  LET l2 == D2(a, b) d == Dot(p, a, b) IN
  IF l2 = 0 THEN "zero" ELSE IF d < 0 THEN "before" ELSE IF d > l2 THEN "after"
  ELSE IF d = 0 THEN "at0" ELSE IF d = l2 THEN "at1" ELSE "inside"

(* The projected point as a pair of rationals with common denominator:       *)
(* <<ynum, xnum, den>>                                                        *)
ProjPt(p, a, b) ==
  LET t == ProjT(p, a, b) IN
  <<a[1] * t[2] + t[1] * (b[1] - a[1]), a[2] * t[2] + t[1] * (b[2] - a[2]), t[2]>>

(* Squared distance from p to the segment a-b.  Interior projection: the     *)
(* perpendicular distance cross^2 / |ab|^2; otherwise the end point.          *)
PS2(p, a, b) ==
  LET l2 == D2(a, b) IN
  IF l2 = 0 THEN <<D2(p, a), 1>>
  ELSE LET d == Dot(p, a, b) IN
       IF d <= 0 THEN <<D2(p, a), 1>>
       ELSE IF d >= l2 THEN <<D2(p, b), 1>>
       ELSE LET c == Orient(a, b, p) IN <<c * c, l2>>

OnBox(a, b, c) == /\ Min2(a[1], b[1]) <= c[1] /\ c[1] <= Max2(a[1], b[1])
                  /\ Min2(a[2], b[2]) <= c[2] /\ c[2] <= Max2(a[2], b[2])

\* do the closed segments a-b and c-d share a point (orientation test)
Inter(a, b, c, d) ==
  LET o1 == Sgn(Orient(a, b, c)) o2 == Sgn(Orient(a, b, d))
      o3 == Sgn(Orient(c, d, a)) o4 == Sgn(Orient(c, d, b)) IN
  \/ (o1 * o2 < 0 /\ o3 * o4 < 0)
  \/ (o1 = 0 /\ OnBox(a, b, c)) \/ (o2 = 0 /\ OnBox(a, b, d))
  \/ (o3 = 0 /\ OnBox(c, d, a)) \/ (o4 = 0 /\ OnBox(c, d, b))

\* squared minimum distance between the closed segments a-b and c-d
SS2(a, b, c, d) ==
  IF Inter(a, b, c, d) THEN <<0, 1>>
  ELSE RMin(RMin(PS2(a, c, d), PS2(b, c, d)), RMin(PS2(c, a, b), PS2(d, a, b)))

\* classification used for coverage counting and for choosing tolerances
SegCase(a, b, c, d) ==
  LET n == (d[2] - c[2]) * (b[1] - a[1]) - (d[1] - c[1]) * (b[2] - a[2]) IN
  IF a = b \/ c = d THEN "zerolen"
  ELSE IF n = 0 THEN (IF Orient(a, b, c) = 0 THEN "collinear" ELSE "parallel")
  ELSE IF Inter(a, b, c, d) THEN
       (IF Orient(a, b, c) = 0 \/ Orient(a, b, d) = 0 \/ Orient(c, d, a) = 0 \/ Orient(c, d, b) = 0
        THEN "touching" ELSE "crossing")
  ELSE "apart"

(* The box around p with half-width r contains the disc of radius r:         *)
(* stated over lattice points q.                                              *)
InBox(q, p, r) == /\ p[1] - r <= q[1] /\ q[1] <= p[1] + r
                  /\ p[2] - r <= q[2] /\ q[2] <= p[2] + r

(* ---- path interpolation with maximum spacing dd = ddn / ddd (rational)    *)
(* For consecutive p, q farther apart than dd: n = least integer with        *)
(* n * dd >= |pq|, i.e. n^2 * ddn^2 >= D2 * ddd^2; inserted points           *)
(* p + (k/n)(q-p), k = 1..n (the last one coincides with q), then q itself.  *)
InterpN(p, q, ddn, ddd) ==
  IF D2(p, q) * ddd * ddd > ddn * ddn
  THEN CeilSqrtRatio(D2(p, q) * ddd * ddd, ddn * ddn) ELSE 0

\* one output element: <<ynum, xnum, den, origIndex (0 if inserted)>>
InterpSeg(p, q, ddn, ddd, j) ==
  LET n == InterpN(p, q, ddn, ddd) IN
  [k \in 1..n |-> <<p[1] * n + k * (q[1] - p[1]), p[2] * n + k * (q[2] - p[2]), n, 0>>]
    \o << <<q[1], q[2], 1, j>> >>

RECURSIVE InterpFrom(_, _, _, _)
InterpFrom(path, ddn, ddd, j) ==
  IF j > Len(path) THEN << >>
  ELSE InterpSeg(path[j - 1], path[j], ddn, ddd, j) \o InterpFrom(path, ddn, ddd, j + 1)
Interp(path, ddn, ddd) ==
  << <<path[1][1], path[1][2], 1, 1>> >> \o InterpFrom(path, ddn, ddd, 2)

\* squared gap between two output elements, as a rational
Gap2(u, v) ==
  LET dy == u[1] * v[3] - v[1] * u[3]
      dx == u[2] * v[3] - v[2] * u[3]
      dn == u[3] * v[3] IN <<dy * dy + dx * dx, dn * dn>>
=============================================================================
