---------------------------- MODULE LatticeProps ----------------------------
(***************************************************************************)
(* The property formulas C01 .. C09 over lattices / results, and the       *)
(* independent oracles they refer to.  Nothing here uses the dynamic       *)
(* programme of Lattice.tla except where a property is *relational*        *)
(* (C06, C07, C08 compare two runs).                                       *)
(***************************************************************************)
EXTENDS Lattice

(***************************************************************************)
(* RoadGraph: the legal-move relation, written from the property text      *)
(* (C04), not from the successor generator.                                *)
(***************************************************************************)
NbrSet(I, n) == {I.nbrs[n][j] : j \in 1..Len(I.nbrs[n])}
EdgeExists(I, e) == e[1] \in I.nodes /\ e[2] \in NbrSet(I, e[1]) /\ e[1] # e[2]
StateExists(I, st) == IF IsEdge(st) THEN EdgeExists(I, st) ELSE st[1] \in I.nodes
LinkedSet(I, e) == IF e \in DOMAIN I.linked THEN {I.linked[e][j] : j \in 1..Len(I.linked[e])} ELSE {}
LegalMove(I, a, b) ==
  \/ a = b                                                            \* same state
  \/ IsEdge(a) /\ IsEdge(b) /\ b[1] = a[2] /\ EdgeExists(I, b)        \* edge to an edge leaving its end node
  \/ IsEdge(a) /\ IsEdge(b) /\ b \in LinkedSet(I, a)                  \* ... or to a linked parallel edge
  \/ ~IsEdge(a) /\ ~IsEdge(b) /\ b[1] \in NbrSet(I, a[1])             \* node to adjacent node
  \/ ~IsEdge(a) /\ IsEdge(b) /\ b[1] = a[1] /\ EdgeExists(I, b)       \* node to an outgoing edge
  \/ IsEdge(a) /\ ~IsEdge(b) /\ b[1] = a[2]                           \* edge to its end node

\* C04
IsWalk(I, path) ==
  /\ \A j \in 1..Len(path) : StateExists(I, path[j].st)
  /\ \A j \in 1..(Len(path) - 1) : LegalMove(I, path[j].st, path[j + 1].st)

\* node_path_to_only_nodes (without jumps); << -1 >> where the code raises
RECURSIVE OnlyNodesFrom(_, _, _, _, _)
OnlyNodesFrom(sts, j, prevState, prevNode, acc) ==
  IF j > Len(sts) THEN acc
  ELSE LET s == sts[j] IN
       IF s = prevState THEN OnlyNodesFrom(sts, j + 1, prevState, prevNode, acc)
       ELSE IF ~IsEdge(s) THEN
            (IF s[1] # prevNode THEN OnlyNodesFrom(sts, j + 1, s, s[1], Append(acc, s[1]))
             ELSE OnlyNodesFrom(sts, j + 1, s, prevNode, acc))
       ELSE IF s[1] = prevNode THEN
            (IF s[2] # prevNode THEN OnlyNodesFrom(sts, j + 1, s, s[2], Append(acc, s[2]))
             ELSE OnlyNodesFrom(sts, j + 1, s, prevNode, acc))
       ELSE IF s[2] = prevNode THEN
            (IF s[1] # prevNode THEN OnlyNodesFrom(sts, j + 1, s, s[1], Append(acc, s[1]))
             ELSE OnlyNodesFrom(sts, j + 1, s, prevNode, acc))
       ELSE << -1 >>
OnlyNodes(sts) ==
  IF Len(sts) = 0 THEN << >>
  ELSE IF IsEdge(sts[1]) THEN OnlyNodesFrom(sts, 2, sts[1], sts[1][2], <<sts[1][1], sts[1][2]>>)
  ELSE OnlyNodesFrom(sts, 2, sts[1], sts[1][1], <<sts[1][1]>>)
\* C04, second sentence: pairwise adjacent nodes without immediate repeats
NodesAdjacent(I, ns) ==
  /\ ns # << -1 >>
  /\ \A j \in 1..(Len(ns) - 1) : ns[j] # ns[j + 1] /\ (ns[j + 1] \in NbrSet(I, ns[j]) \/ ns[j] \in NbrSet(I, ns[j + 1]))

\* C03: alignment of a best path with the observations
Aligned(path, idx, complete) ==
  Len(path) > 0 =>
  /\ path[1].obs = 0 /\ path[1].ne = 0
  /\ \A j \in 1..(Len(path) - 1) :
        \/ (path[j + 1].obs = path[j].obs + 1 /\ path[j + 1].ne = 0)
        \/ (path[j + 1].obs = path[j].obs /\ path[j + 1].ne = path[j].ne + 1)
  /\ \A t \in 0..idx : Cardinality({j \in 1..Len(path) : path[j].obs = t /\ path[j].ne = 0}) = 1
  /\ \A j \in 1..Len(path) : path[j].obs <= idx
  /\ complete => path[Len(path)].ne = 0
Collapse(sts) == SelectSeq([j \in 1..Len(sts) |-> <<sts[j], j = 1 \/ sts[j] # sts[j - 1]>>], LAMBDA x : x[2])
UniqueStates(sts) == LET c == Collapse(sts) IN [j \in 1..Len(c) |-> c[j][1]]

\* C05 (thresholds): no state on the path beyond the cut-offs.  cf.slack = 0 for integer tables; for
\* values recorded in fixed point from the real matchers it absorbs the rounding of the conversion.
CutoffsHonoured(cf, path) ==
  \A j \in 1..Len(path) :
     /\ path[j].dist <= cf.maxDist
     /\ (j = 1 => path[j].dist < cf.maxDistInit + cf.slack)
     /\ (cf.minlp[1] <= -100000000      \* no minimum configured (guards the 32-bit product)
         \/ path[j].lp * cf.minlp[2] + cf.slack * path[j].len >= cf.minlp[1] * path[j].len)

(***************************************************************************)
(* C02: the model score of a path, recomputed from the tables alone.       *)
(***************************************************************************)
RECURSIVE ModelScore(_, _, _, _)
\* returns the sequence of [lp, lpe, lpne, len, dist] along the path prefix 1..j
ModelScore(I, cf, path, j) ==
  LET e == path[j] IN
  IF j = 1 THEN << [lp |-> I.lE[e.st][0], lpe |-> I.lE[e.st][0], lpne |-> 0, len |-> 1, dist |-> I.dE[e.st][0]] >>
  ELSE LET pre == ModelScore(I, cf, path, j - 1)
           p == pre[j - 1]  pe == path[j - 1]
           back == cf.secondOrder /\ j > 2 /\ path[j - 2].st = e.st
           lt == IF pe.st = e.st THEN 0
                 ELSE (IF pe.ne # 0 \/ e.ne # 0 THEN I.tr.moveNE ELSE I.tr.move) + (IF back THEN I.tr.back ELSE 0)
           lo == IF e.ne = 0 THEN I.lE[e.st][e.obs] ELSE I.lN[e.st][e.obs]
           d == IF e.ne = 0 THEN I.dE[e.st][e.obs] ELSE I.dN[e.st][e.obs]
       IN Append(pre,
            IF e.ne = 0 THEN [lp |-> p.lp + lt + lo, lpe |-> p.lp + lt + lo, lpne |-> 0, len |-> p.len + 1, dist |-> d]
            ELSE LET ne2 == IF p.lpne < lt + lo THEN p.lpne ELSE lt + lo IN
                 [lp |-> p.lpe + cf.neLen + ne2, lpe |-> p.lpe + cf.neLen, lpne |-> ne2, len |-> p.len, dist |-> d])
PathScoresMatchModel(I, cf, path) ==
  Len(path) > 0 =>
  LET ms == ModelScore(I, cf, path, Len(path)) IN
  \A j \in 1..Len(path) : /\ path[j].lp = ms[j].lp /\ path[j].len = ms[j].len /\ path[j].dist = ms[j].dist

\* The same model one step at a time, from the RECORDED fields of the predecessor on the path: StepOK holds for every
\* j iff PathScoresMatchModel holds (induction on j), and a failing step names the entry whose score is wrong.
StepExpected(I, cf, path, j) ==
  LET e == path[j] IN
  IF j = 1 THEN [lp |-> I.lE[e.st][0], len |-> 1, dist |-> I.dE[e.st][0]]
  ELSE LET p == path[j - 1]
           back == cf.secondOrder /\ j > 2 /\ path[j - 2].st = e.st
           lt == IF p.st = e.st THEN 0
                 ELSE (IF p.ne # 0 \/ e.ne # 0 THEN I.tr.moveNE ELSE I.tr.move) + (IF back THEN I.tr.back ELSE 0)
           lo == IF e.ne = 0 THEN I.lE[e.st][e.obs] ELSE I.lN[e.st][e.obs]
           d == IF e.ne = 0 THEN I.dE[e.st][e.obs] ELSE I.dN[e.st][e.obs]
       IN IF e.ne = 0 THEN [lp |-> p.lp + lt + lo, len |-> p.len + 1, dist |-> d]
          ELSE LET ne2 == IF p.lpne < lt + lo THEN p.lpne ELSE lt + lo IN
               [lp |-> p.lpe + cf.neLen + ne2, len |-> p.len, dist |-> d]
StepOK(I, cf, path, j) ==
  LET x == StepExpected(I, cf, path, j) IN path[j].lp = x.lp /\ path[j].len = x.len /\ path[j].dist = x.dist
\* F-stale: the predecessor on the path was replaced in place, in an expansion round (widening / extension), after the
\* entry was scored.  stamps[j] = <<sequence number of the last scoring of path[j], expansion round of that scoring>>
\* as recorded from the implementation (0 = not recorded).
\* The same pattern in the specification's own terms (design level): the predecessor's score was written in a later
\* call than the entry's (rnd = Lattice.Rounds).
StaleRnd(rnd, path, j) ==
  j > 1 /\ LET kp == Key(path[j - 1])  ke == Key(path[j]) IN
           kp \in DOMAIN rnd /\ ke \in DOMAIN rnd /\ rnd[kp] >= 1 /\ rnd[kp] > rnd[ke]
PathScoresMatchModelModuloStale(I, cf, rnd, path) ==
  \A j \in 1..Len(path) : StepOK(I, cf, path, j) \/ StaleRnd(rnd, path, j)
StaleStep(stamps, j) ==
  j > 1 /\ Len(stamps) >= j /\ stamps[j][1] # 0 /\ stamps[j - 1][1] > stamps[j][1] /\ stamps[j - 1][2] >= 1

(***************************************************************************)
(* C01 oracle: all admissible emitting-only walks, by explicit             *)
(* enumeration of <<end state, score>> pairs (no keep-the-better step).    *)
(* Moves are those the state family allows (edge-only: stay / next edge /  *)
(* linked edge; node-and-edge: node->node, node->edge, edge stay,          *)
(* edge->end node), written from the graph, not from the search.           *)
(***************************************************************************)
AllStates(I, cf) == {st \in DOMAIN I.dE : StateExists(I, st) /\ (cf.onlyEdges => IsEdge(st))}
WalkMove(I, cf, a, b) ==
  IF cf.onlyEdges THEN \/ a = b
                       \/ (b[1] = a[2] /\ b[2] # a[2] /\ a[1] # a[2])
                       \/ (b \in LinkedSet(I, a) /\ b[2] # a[2] /\ b[1] # a[1])
  ELSE \/ (IsEdge(a) /\ a = b)
       \/ (IsEdge(a) /\ ~IsEdge(b) /\ b[1] = a[2])
       \/ (~IsEdge(a) /\ ~IsEdge(b) /\ b[1] \in NbrSet(I, a[1]))
       \/ (~IsEdge(a) /\ IsEdge(b) /\ b[1] = a[1])
Admissible(I, cf, st, t, lp, len) ==
  /\ ~DoStop(cf, lp, len, I.dE[st][t])
  /\ (t > 0 /\ IsEdge(st) /\ ~cf.onlyEdges) => I.tiE[st][t] = 1
\* first-order transition term of the oracle: the abstract constant, or (real matchers) the extracted table
TransW(I, a, b, t) == IF I.hasTT THEN I.tt[<<a, b, t>>] ELSE (IF a = b THEN 0 ELSE I.tr.move)
RECURSIVE Reach(_, _, _)
Reach(I, cf, t) ==
  IF t = 0 THEN {<<st, I.lE[st][0]>> : st \in {s \in AllStates(I, cf) :
                      /\ (cf.onlyEdges \/ ~IsEdge(s)) /\ I.dE[s][0] < cf.maxDistInit
                      /\ Admissible(I, cf, s, 0, I.lE[s][0], 1)}}
  ELSE LET prev == Reach(I, cf, t - 1) IN
       {y \in UNION {{<<b, x[2] + TransW(I, x[1], b, t) + I.lE[b][t]>> :
                         b \in {b \in AllStates(I, cf) : WalkMove(I, cf, x[1], b)}} : x \in prev} :
          Admissible(I, cf, y[1], t, y[2], t + 1)}
RECURSIVE OptIdxFrom(_, _, _, _)
OptIdxFrom(I, cf, n, t) == IF t > n - 1 \/ Reach(I, cf, t) = {} THEN t - 1 ELSE OptIdxFrom(I, cf, n, t + 1)
OptIdx(I, cf, n) == OptIdxFrom(I, cf, n, 0)          \* -1: not even the first observation
OptScore(I, cf, t) == LET S == {x[2] : x \in Reach(I, cf, t)} IN CHOOSE v \in S : \A u \in S : u <= v
\* C01 for a fresh, emitting-only, unpruned, first-order match of n observations
Optimal(I, cf, n, R) ==
  LET oi == OptIdx(I, cf, n) IN
  IF oi = -1 THEN R.path = << >> /\ R.idx = 0
  ELSE /\ R.path # << >> /\ R.idx = oi
       /\ LET d == R.path[Len(R.path)].lp - OptScore(I, cf, oi) IN d <= cf.slack * n /\ -d <= cf.slack * n

(***************************************************************************)
(* C09: well-formedness of a lattice.                                      *)
(***************************************************************************)
WellFormed(lat) ==
  \A c \in 0..(Len(lat) - 1) : \A k \in 0..(Len(lat[c + 1]) - 1) :
    LET L == lat[c + 1][k + 1] IN
    \A j \in 1..Len(L) :
      LET e == L[j] IN
      /\ e.obs = c /\ e.ne = k                                  \* filed where it claims
      /\ \A j2 \in 1..Len(L) : j2 # j => Key(L[j2]) # Key(e)    \* one entry per key
      /\ e.lp <= 0 /\ e.len = c + 1
      /\ IF c = 0 /\ k = 0 THEN e.prev = << >> /\ e.len = 1
         ELSE /\ e.prev # << >> /\ HasKey(lat, e.prev)
              /\ (IF k = 0 THEN e.prev[2] = c - 1 ELSE e.prev[2] = c /\ e.prev[3] = k - 1)
              /\ LET p == EntryAt(lat, e.prev) IN e.lp <= p.lp /\ (~e.stop => ~p.stop)

(***************************************************************************)
(* C07 (first sentence), on a fresh run: in every layer the expanded live  *)
(* entries are among the W most probable (plus ties) and no postponed      *)
(* entry is more probable than an expanded one.                            *)
(***************************************************************************)
SelectionSoundLayerG(L, W, now, exact) ==
  LET live == Live(L)
      X == {j \in 1..Len(live) : live[j].delayed <= now}
      P == {j \in 1..Len(live) : live[j].delayed > now}
  IN /\ \A p \in P : \A x \in X : (IF exact THEN live[p].lp < live[x].lp     \* exact ties are expanded together
                                       ELSE live[p].lp <= live[x].lp)   \* (values rounded to fixed point: ties unknowable)
     /\ W # NoW => \A x \in X : Cardinality({j \in 1..Len(live) : live[j].lp > live[x].lp}) < W
     /\ W = NoW => P = {}
SelectionSoundLayer(L, W, now) == SelectionSoundLayerG(L, W, now, TRUE)
SelectionSoundG(lat, W, now, exact) ==
  \A c \in 1..Len(lat) : \A k \in 1..Len(lat[c]) : SelectionSoundLayerG(lat[c][k], W, now, exact)
SelectionSound(lat, W, now) == SelectionSoundG(lat, W, now, TRUE)

\* order on canonical results: longer match first, then (for complete matches) probability
CanonLeq(a, b, n) == a[1] <= b[1] /\ ((a[1] = n - 1 /\ b[1] = n - 1) => a[2] <= b[2])
=============================================================================
