#!/usr/bin/env python3
"""Writes the LatticeMC_*.cfg model-checking configurations (constants are literal in each file)."""
import os
D = os.path.dirname(os.path.abspath(__file__))
INV = {'C01': ['C01', 'C03b'], 'C02': ['C02'], 'C03': ['C03', 'C03b'], 'C04': ['C04'], 'C05': ['C05'], 'C06': ['C06'],
       'C07': ['C07a', 'C07b'], 'C08': ['C08'], 'C09': ['C09']}
PROP = {'C07': ['C07c']}
ALLG = '{"line", "tri", "dead", "selfl", "pair"}'
BIGG = '{"line", "tri", "dead", "selfl", "pair", "star4", "ring4"}'


def s(x):
    return '{' + ', '.join(x) + '}'


def cfg(name, graphs, T, qe, qn, modes, nes, widths, cuts, maxops, sample, moves, emit, invs, props=(), exh='{}', debugs='{FALSE}', reuse='FALSE'):
    lines = [f'CONSTANTS Graphs = {graphs} T = {T} QE = {qe} QN = {qn} NodeModes = {modes} NEs = {nes}',
             f'  Widths = {widths} Cuts = {cuts} MaxOps = {maxops} SAMPLE = {sample} Moves = {moves} EMIT = {emit}',
             f'  ExhGraphs = {exh} Debugs = {debugs} REUSE = {reuse}', 'SPECIFICATION Spec']
    lines += [f'INVARIANT {i}' for i in invs] + [f'PROPERTY {p}' for p in props] + ['CHECK_DEADLOCK FALSE']
    open(os.path.join(D, name + '.cfg'), 'w').write('\n'.join(lines) + '\n')


BOTH, TT, FF = '{TRUE, FALSE}', '{TRUE}', '{FALSE}'
CUTS = '{"none", "dist", "init", "prob", "both"}'
Q4, Q3 = '{0, 1, 2, 3}', '{0, 1, 2}'
# deep random behaviours for `tlc -simulate` (thorough tier): larger graphs, longer traces, longer histories
cfg('LatticeMC_SIMe', BIGG, 5, Q4, Q3, BOTH, BOTH, '{0, 1, 2}', CUTS, 6, 2, '{"m11", "m10"}', 'TRUE', ['EmitBehaviour'], reuse='TRUE')
for th in (False, True):
    sx = '_T' if th else ''
    G = BIGG if th else ALLG
    T = 4 if th else 3
    k = 6 if th else 1      # sample multiplier (design-level model checking)
    ke = 2 if th else 1     # sample multiplier of the behaviour-emitting configurations (every behaviour is replayed)
    # design-level model checking (invariants only)
    cfg('LatticeMC_C01' + sx, G, T, Q4, Q3, BOTH, FF, '{0}', CUTS, 1, 12 * k, '{"m11", "m00"}', 'FALSE', INV['C01'], exh='{"pair"}' if not th else '{"pair", "chain"}')
    cfg('LatticeMC_C02' + sx, G, T, Q4, Q3, BOTH, BOTH, '{0, 1, 2}', CUTS, 3, 1 * k, '{"m11", "m12"}', 'FALSE', INV['C02'])
    cfg('LatticeMC_C03' + sx, G, T, Q4, Q3, BOTH, BOTH, '{0, 1, 2}', CUTS, 3, 1 * k, '{"m11"}', 'FALSE', INV['C03'] + ['ReuseIsFresh'], reuse='TRUE')
    cfg('LatticeMC_C04' + sx, G, T, Q4, Q3, BOTH, BOTH, '{0, 1, 2}', CUTS, 3, 1 * k, '{"m11"}', 'FALSE', INV['C04'])
    cfg('LatticeMC_C05' + sx, G, T, Q4, Q3, BOTH, BOTH, '{0, 1, 2}', CUTS, 3, 1 * k, '{"m11"}', 'FALSE', INV['C05'])
    cfg('LatticeMC_C06' + sx, G, T, Q4, Q3, BOTH, TT, '{0}', CUTS, 1, 6 * k, '{"m11", "m10", "m12"}', 'FALSE', INV['C06'])
    cfg('LatticeMC_C07' + sx, G, T, Q4, Q3, BOTH, BOTH, '{1, 2}', '{"none", "dist", "prob"}', 3, 2 * k, '{"m11"}', 'FALSE', INV['C07'], PROP['C07'])
    cfg('LatticeMC_C08' + sx, G, T, Q4, Q3, BOTH, BOTH, '{0, 1, 2}', '{"none", "dist", "prob"}', 3, 1 * k, '{"m11"}', 'FALSE', INV['C08'])
    cfg('LatticeMC_C09' + sx, G, T, Q4, Q3, BOTH, BOTH, '{0, 1, 2}', CUTS, 3, 1 * k, '{"m11"}', 'FALSE', INV['C09'])
    # behaviours emitted for replay on the real matcher
    cfg('LatticeMC_C01e' + sx, G, T, Q4, Q3, BOTH, FF, '{0}', CUTS, 1, 3 * ke, '{"m11", "m00"}', 'TRUE', ['EmitBehaviour'])
    cfg('LatticeMC_C06e' + sx, G, T, Q4, Q3, BOTH, TT, '{0}', CUTS, 1, 3 * ke, '{"m11", "m10"}', 'TRUE', ['EmitBehaviour'])
    cfg('LatticeMC_C07e' + sx, '{"line", "selfl", "tri"}' if not th else G, T, Q4, Q3, BOTH, BOTH, '{1, 2}', '{"none", "prob"}', 3, 1 * ke, '{"m11"}', 'TRUE', ['EmitBehaviour'])
    cfg('LatticeMC_C08e' + sx, '{"line", "selfl", "tri"}' if not th else G, T, Q4, Q3, BOTH, BOTH, '{0, 2}', '{"none", "dist"}', 3, 1 * ke, '{"m11"}', 'TRUE', ['EmitBehaviour'])
    cfg('LatticeMC_C19' + sx, G, T, Q4, Q3, BOTH, BOTH, '{0, 1, 2}', CUTS, 1, 2 * k, '{"m11", "m00"}', 'FALSE', ['C19all'])
    cfg('LatticeMC_C19n' + sx, G, T, Q4, Q3, BOTH, TT, '{0, 1, 2}', CUTS, 1, 8 * k, '{"m11", "m00"}', 'FALSE', ['C19noties'])
    cfg('LatticeMC_C19x' + sx, '{"selfl", "line", "tri"}', T, Q4, Q3, FF, TT, '{0}', '{"none", "dist", "prob"}', 1, 40 * k, '{"m11"}', 'FALSE', ['C19all'])
    cfg('LatticeMC_C19e' + sx, '{"line", "selfl", "dead"}' if not th else G, T, Q4, Q3, BOTH, BOTH, '{0, 2}', CUTS, 2, 1 * ke, '{"m11"}', 'TRUE', ['EmitBehaviour'], debugs='{TRUE}')
    cfg('LatticeMC_C10' + sx, G, T, Q4, Q3, BOTH, FF, '{0, 1, 2}', CUTS, 1, 8 * k, '{"m11", "m00"}', 'FALSE', ['C10order'])
    cfg('LatticeMC_C10n' + sx, G, T, Q4, Q3, BOTH, TT, '{0, 1, 2}', CUTS, 1, 2 * k, '{"m11", "m00"}', 'FALSE', ['C10orderNE'])
    cfg('LatticeMC_ALLe' + sx, '{"line", "selfl", "dead"}' if not th else G, T, Q4, Q3, BOTH, BOTH, '{0, 1, 2}', '{"none", "dist", "prob"}', 3, 1 * ke, '{"m11"}', 'TRUE', ['EmitBehaviour'])
    # histories in which the matcher object is reused for a fresh match() (replayed on the real matcher by C03)
    cfg('LatticeMC_C03e' + sx, '{"line", "dead"}' if not th else '{"line", "dead", "selfl", "tri"}', T, Q4, Q3, BOTH, BOTH, '{0, 2}', '{"none", "dist"}', 3, 1 * ke, '{"m11"}', 'TRUE', ['EmitBehaviour'], reuse='TRUE')
