------------------------------ MODULE PruneMC ------------------------------
(***************************************************************************)
(* Lemma: the declarative specification of LatticeColumn.prune used in     *)
(* Lattice.tla (W-th largest value with multiplicity, tie extension,       *)
(* threshold, activation / postponement) equals the operational algorithm  *)
(* of the code (stable sort in decreasing order, the tie-extension loop,   *)
(* the threshold loop, two assignment loops, returned threshold) - for     *)
(* EVERY layer up to a bounded length over small value ranges, and the     *)
(* result always satisfies the selection clause of C07.                    *)
(***************************************************************************)
EXTENDS LatticeProps, TLC

CONSTANTS MaxLen, Lps, Delays, Ws, Uptos, Thrs
VARIABLE x
LpsDef == {-2, -1, 0}
ThrsDef == {NoThr, -1, 0}
Entry(i, lp, d, s) == [st |-> <<i>>, obs |-> 0, ne |-> 0, lp |-> lp, lpe |-> lp, lpne |-> 0, prev |-> << >>,
                       stop |-> s, len |-> 1, delayed |-> d, dist |-> 0]
Layers == UNION {[1..n -> Lps \X Delays \X BOOLEAN] : n \in 0..MaxLen}
Mk(f) == [i \in DOMAIN f |-> Entry(i, f[i][1], f[i][2], f[i][3])]

\* ---- the code's algorithm, step by step
RECURSIVE InsertDesc(_, _)
InsertDesc(sorted, e) ==       \* stable insertion: e goes after every element with lp >= e.lp
  IF Len(sorted) = 0 THEN <<e>>
  ELSE IF sorted[1].lp >= e.lp THEN <<sorted[1]>> \o InsertDesc(Tail(sorted), e)
  ELSE <<e>> \o sorted
RECURSIVE SortDesc(_, _)
SortDesc(L, acc) == IF Len(L) = 0 THEN acc ELSE SortDesc(Tail(L), InsertDesc(acc, L[1]))
RECURSIVE TieExt(_, _, _)
TieExt(ms, cw, lastLp) == IF cw < Len(ms) /\ ms[cw + 1].lp = lastLp THEN TieExt(ms, cw + 1, ms[cw + 1].lp) ELSE cw
RECURSIVE ThrCut(_, _, _)
ThrCut(ms, cw, thr) == IF cw > 0 /\ ms[cw].lp < thr THEN ThrCut(ms, cw - 1, thr) ELSE cw
PruneOp(L, W, upto, thr) ==
  LET cur == SelectSeq(L, LAMBDA e : ~e.stop) IN
  IF W = NoW \/ Len(cur) <= W THEN <<L, thr>>
  ELSE LET ms == SortDesc(cur, << >>)
           cw1 == TieExt(ms, W, ms[W].lp)
           cw == IF thr # NoThr THEN ThrCut(ms, cw1, thr) ELSE cw1
           keptKeys == {Key(ms[j]) : j \in 1..cw}
           L2 == [j \in 1..Len(L) |->
                    IF L[j].stop THEN L[j]
                    ELSE IF Key(L[j]) \in keptKeys
                         THEN (IF L[j].delayed > upto THEN [L[j] EXCEPT !.delayed = upto] ELSE L[j])
                         ELSE (IF L[j].delayed <= upto THEN [L[j] EXCEPT !.delayed = upto + 1] ELSE L[j])]
       IN <<L2, IF cw > 0 THEN ms[cw].lp ELSE thr>>

Init == x \in Layers \X Ws \X Uptos \X Thrs
Next == UNCHANGED x
Lat(L) == << <<L>> >>          \* one column, one layer
Equivalent ==
  LET L == Mk(x[1])  d == Prune(Lat(L), 0, 0, x[2], x[3], x[4])  o == PruneOp(L, x[2], x[3], x[4]) IN
  /\ LayerOf(d[1], 0, 0) = o[1] /\ d[2] = o[2]
\* after pruning with no threshold, when every live entry was either active or later (as in a matcher round),
\* the layer satisfies the selection clause of C07
SelectionAfterPrune ==
  LET L == Mk(x[1])  d == Prune(Lat(L), 0, 0, x[2], x[3], NoThr) IN
  (x[2] # NoW /\ Len(Live(L)) > x[2]) => SelectionSoundLayer(LayerOf(d[1], 0, 0), x[2], x[3])
=============================================================================
