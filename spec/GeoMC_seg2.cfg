CONSTANTS MODE = "seg" N = 2 K = 0 EMIT = TRUE
INIT Init
NEXT Next
INVARIANT Lemmas
INVARIANT Emit
