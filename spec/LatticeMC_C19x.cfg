CONSTANTS Graphs = {"selfl", "line", "tri"} T = 3 QE = {0, 1, 2, 3} QN = {0, 1, 2} NodeModes = {FALSE} NEs = {TRUE}
  Widths = {0} Cuts = {"none", "dist", "prob"} MaxOps = 1 SAMPLE = 40 Moves = {"m11"} EMIT = FALSE
  ExhGraphs = {} Debugs = {FALSE} REUSE = FALSE
SPECIFICATION Spec
INVARIANT C19all
CHECK_DEADLOCK FALSE
