"""Abstract binding (A-abs): the real BaseMatcher run on integer weight tables through the documented
extension points (a BaseMap subclass + logprob_trans / logprob_obs overrides).  All floats are small
integers, so every comparison in matcher/base.py -- including exact ties and the tie extension of
pruning -- is bit-exact.  Instances come from TLC (spec/LatticeMC.tla) or from the seeded generator here."""
import math, random
from . import common

OBS0 = 1000.0
INF = 999999


def tup(x):
    return tuple(x)


class Inst:
    """nodes: list; nbrs: {node: [nbr...]} as the map lists them; tables keyed by (state tuple, t)"""

    def __init__(self, nodes, nbrs, T, tab, tr, linked=None, skip=None):
        self.nodes, self.nbrs, self.T, self.tr = list(nodes), {k: list(v) for k, v in nbrs.items()}, T, dict(tr)
        self.dE, self.lE, self.dN, self.lN, self.ti = {}, {}, {}, {}, {}
        self.states = []
        for st, row in tab.items():
            st = tup(st)
            self.states.append(st)
            for t in range(T):
                self.dE[(st, t)] = row['dE'][t]
                self.lE[(st, t)] = row['lE'][t]
                self.dN[(st, t)] = row['dN'][t]
                self.lN[(st, t)] = row['lN'][t]
                self.ti[(st, t)] = row['ti'][t]
        self.states.sort()
        self.edges = [s for s in self.states if len(s) == 2]
        self.linked = {tup(k): [tup(x) for x in v] for k, v in (linked or {}).items()}
        self.skip = {(tup(k[0]), k[1]): v for k, v in (skip or {}).items()}

    def to_json(self):
        rows = []
        for st in self.states:
            rows.append({'st': list(st), 'dE': [self.dE[(st, t)] for t in range(self.T)],
                         'lE': [self.lE[(st, t)] for t in range(self.T)],
                         'dN': [self.dN[(st, t)] for t in range(self.T)],
                         'lN': [self.lN[(st, t)] for t in range(self.T)],
                         'ti': [self.ti[(st, t)] for t in range(self.T)],
                         'skip': [bool(self.skip.get((st, t), False)) for t in range(self.T)],
                         'linked': [list(x) for x in self.linked.get(st, [])]})
        return {'nodes': list(self.nodes), 'nbrs': [[n, list(self.nbrs[n])] for n in self.nodes], 'tab': rows,
                'tr': self.tr, 'T': self.T, 'hasTT': False, 'tt': []}


def _seq(x, T):
    """TLC serialises a function with domain 0..T-1 as an object with string keys, a sequence as a list"""
    if isinstance(x, dict):
        return [x[str(t)] for t in range(T)]
    return list(x)


def inst_from_tlc(j):
    T = j['T']
    nodes = list(j['nodes'])
    if isinstance(j['nbrs'], dict):
        nbrs = {int(k): list(v) for k, v in j['nbrs'].items()}
    elif j['tab'] and 'skip' in j['tab'][0]:        # Inst.to_json format: [[node, [nbr...]]...]
        nbrs = {n: list(v) for n, v in j['nbrs']}
    else:                                           # TLC: function over 1..N printed as a sequence
        nbrs = {i + 1: list(v) for i, v in enumerate(j['nbrs'])}
    tab, linked, skip = {}, {}, {}
    for row in j['tab']:
        st = tup(row['st'])
        tab[st] = {k: _seq(row[k], T) for k in ('dE', 'lE', 'dN', 'lN', 'ti')}
        if 'linked' in row and row['linked']:
            linked[st] = row['linked']
        if 'skip' in row:
            for t, v in enumerate(_seq(row['skip'], T)):
                if v:
                    skip[(st, t)] = True
    return Inst(nodes, nbrs, T, tab, j['tr'], linked, skip)


LABELS = {'id': (lambda n: n, lambda l: l),
          'zero': (lambda n: n - 1, lambda l: l + 1),            # 0-based labels: one label is falsy
          'z2': (lambda n: n - 2, lambda l: l + 2),              # node 2 gets the falsy label 0
          'z3': (lambda n: 3 - n, lambda l: 3 - l),              # node 3 gets 0 (order reversed)
          'str': (lambda n: 'abcdefghij'[n - 1], lambda l: 'abcdefghij'.index(l) + 1),
          'neg': (lambda n: 3 - 2 * n, lambda l: (3 - l) // 2)}   # 1, -1, -3, ...


def nloc(n): return (float(n), 0.0)


def oloc(t): return (OBS0 + t, 0.0)


def is_obs(p): return p[0] >= OBS0


TI = {0: 0.0, 1: 0.5, 2: 1.0}


def make_classes():
    common.import_repo()
    from leuvenmapmatching.map.base import BaseMap
    from leuvenmapmatching.matcher.base import BaseMatcher

    class TableMap(BaseMap):
        def __init__(self, inst, scheme='id'):
            super().__init__("tbl", use_latlon=False)
            self.inst = inst
            self.L, self.U = LABELS[scheme]
            self.distance = self._distance
            self.distance_point_to_segment = self._dps
            self.distance_segment_to_segment = self._dss

        @staticmethod
        def _edge(p1, p2): return (int(p1[0]), int(p2[0]))

        def _distance(self, p1, p2):
            return self.inst.dE[((int(p1[0]),), int(p2[0] - OBS0))]

        def _dps(self, p, s1, s2, delta=0.0):
            if not is_obs(p):   # a node projected on the observation segment t..t+1
                t = int(s1[0] - OBS0)
                return (self.inst.dN[((int(p[0]),), t)], (0.5, 0.5), 0.5)
            e = self._edge(s1, s2)
            t = int(p[0] - OBS0)
            return (self.inst.dE[(e, t)], (0.5, 0.5), TI[self.inst.ti[(e, t)]])

        def _dss(self, f1, f2, t1, t2):
            e = self._edge(f1, f2)
            t = int(t1[0] - OBS0)
            return (self.inst.dN[(e, t)], (0.5, 0.5), (0.5, 0.5), 0.5, 0.5)

        def bb(self): return None
        def labels(self): return [self.L(n) for n in self.inst.nodes]
        def size(self): return len(self.inst.nodes)
        def node_coordinates(self, k): return nloc(self.U(k))
        def all_nodes(self, bb=None): return [(self.L(k), nloc(k)) for k in self.inst.nodes]
        def all_edges(self, bb=None): return [(self.L(a), nloc(a), self.L(b), nloc(b)) for a, b in self.inst.edges]

        def nodes_closeto(self, loc, max_dist=None, max_elmt=None):
            t = int(loc[0] - OBS0)
            res = [(self.inst.dE[((n,), t)], n, nloc(n)) for n in self.inst.nodes
                   if ((n,), t) in self.inst.dE and self.inst.dE[((n,), t)] < max_dist]
            res.sort()
            return [(d, self.L(n), loc) for d, n, loc in res]

        def edges_closeto(self, loc, max_dist=None, max_elmt=None):
            t = int(loc[0] - OBS0)
            res = [(self.inst.dE[(e, t)], e[0], nloc(e[0]), e[1], nloc(e[1]), (0.5, 0.5), 0.5)
                   for e in self.inst.edges if self.inst.dE[(e, t)] < max_dist]
            res.sort()
            return [(d, self.L(a), la, self.L(b), lb, pi, ti) for d, a, la, b, lb, pi, ti in res]

        def nodes_nbrto(self, node):
            return [(self.L(n), nloc(n)) for n in self.inst.nbrs.get(self.U(node), [])]

        def edges_nbrto(self, edge):
            e = (self.U(edge[0]), self.U(edge[1]))
            res = [(edge[1], nloc(e[1]), self.L(n), nloc(n)) for n in self.inst.nbrs.get(e[1], [])]
            for (a, b) in self.inst.linked.get(e, []):
                res.append((self.L(a), nloc(a), self.L(b), nloc(b)))
            return res

    class TableMatcher(BaseMatcher):
        def __init__(self, inst, second_order=False, scheme='id', **kw):
            super().__init__(TableMap(inst, scheme), **kw)
            self.inst = inst
            self.second_order = second_order
            self.U = LABELS[scheme][1]

        def _st(self, seg):
            return (self.U(seg.l1), self.U(seg.l2)) if seg.l2 is not None else (self.U(seg.l1),)

        def logprob_trans(self, prev_m, edge_m, edge_o, is_prev_ne=False, is_next_ne=False):
            a, b = self._st(prev_m.edge_m), self._st(edge_m)
            if a == b:
                return 0, {}
            lt = self.inst.tr['moveNE'] if (is_prev_ne or is_next_ne) else self.inst.tr['move']
            if self.second_order:
                for pp in prev_m.prev:
                    if self._st(pp.edge_m) == b:
                        lt += self.inst.tr['back']
                        break
            return float(lt), {}

        def logprob_obs(self, dist, prev_m, new_edge_m, new_edge_o, is_ne=False):
            st = self._st(new_edge_m)
            t = int(new_edge_o.p1[0] - OBS0)      # identify the observation by location, never by label
            return float(self.inst.lN[(st, t)] if is_ne else self.inst.lE[(st, t)]), {}

        def _skip_ne_states(self, m):
            return bool(self.inst.skip.get((self._st(m.edge_m), m.obs), False))

    return TableMap, TableMatcher


_classes = None


def mk_matcher(inst, cf):
    """cf as in the specification: onlyEdges, ne, W (0 = none), maxDist, maxDistInit, minlp [n, d], neLen, secondOrder"""
    global _classes
    if _classes is None:
        _classes = make_classes()
    TableMap, TableMatcher = _classes
    kw = dict(max_dist=None if cf['maxDist'] >= INF else float(cf['maxDist']),
              max_dist_init=None if cf['maxDistInit'] >= INF else float(cf['maxDistInit']),
              non_emitting_states=bool(cf['ne']), max_lattice_width=(cf['W'] or None),
              only_edges=bool(cf['onlyEdges']))
    m = TableMatcher(inst, second_order=bool(cf.get('secondOrder', False)), scheme=cf.get('labels', 'id'), **kw)
    if cf['maxDist'] >= INF and cf['maxDistInit'] < INF:
        pass
    m.ne_length_factor_log = float(cf.get('neLen', -1))
    m.non_emitting_states_maxnb = int(cf.get('neMax', 100))
    n, d = cf['minlp']
    m.min_logprob_norm = -math.inf if n <= -INF else n / d
    return m


def st_of(x):
    U = x.matcher.U
    return [U(x.edge_m.l1), U(x.edge_m.l2)] if x.edge_m.l2 is not None else [U(x.edge_m.l1)]


def key_of(x):
    return [st_of(x), x.obs, x.obs_ne]


def iv(v):
    """tables are integer valued: every score in the lattice must be an exact integer-valued float"""
    if isinstance(v, int):
        return v
    if v != v or abs(v) == math.inf:
        return -INF * 1000
    r = int(round(v))
    if r != v:
        raise common.MachineryError(f'non-integer value {v} in an integer-table run')
    return r


def proj_entry(x):
    pk = []
    if x.prev:
        pk = key_of(sorted(x.prev, key=lambda q: str(q.key))[0])
    return {'st': st_of(x), 'obs': x.obs, 'ne': x.obs_ne, 'lp': iv(x.logprob), 'lpe': iv(x.logprobe),
            'lpne': iv(x.logprobne), 'prev': pk, 'stop': bool(x.stop), 'len': x.length, 'delayed': x.delayed,
            'dist': iv(x.dist_obs)}


def dangling(m):
    """entries whose predecessor OBJECT is not the object the lattice stores under the predecessor's key"""
    out = []
    if not m.lattice:
        return out
    for c in range(len(m.lattice)):
        for L in m.lattice[c].o:
            for x in L.values():
                for p in x.prev:
                    col = m.lattice.get(p.obs)
                    stored = None
                    if col is not None and p.obs_ne < len(col.o):
                        stored = col.o[p.obs_ne].get(p.key)
                    if stored is not p:
                        out.append([key_of(x), key_of(p)])
                if len(x.prev) > 1:
                    out.append([key_of(x), 'several-best-predecessors'])
            for k, x in L.items():
                # the dictionary key must be the (state, observation, depth) the entry claims -- computed here
                # from the entry's own segment labels, not through the library's key property
                want = (x.edge_m.l1, x.obs, x.obs_ne) if x.edge_m.l2 is None else (x.edge_m.l1, x.edge_m.l2, x.obs, x.obs_ne)
                if tuple(k) != want:
                    out.append([key_of(x), 'filed-under-another-key'])
    return out


def proj_lattice(m):
    out = []
    if not m.lattice:
        return out
    for c in range(len(m.lattice)):
        col = m.lattice[c]
        out.append([[proj_entry(x) for x in L.values()] for L in col.o])
    return out


def run_history(inst, cf, ops, unique=False, snapshots=True, matcher=None):
    """ops: list of (op, arg).  Returns list of observation dicts (one per op)."""
    cf = dict(cf)
    common.install_stamps()
    m = matcher if matcher is not None else mk_matcher(inst, cf)
    out = []
    import logging
    lg = logging.getLogger("be.kuleuven.cs.dtai.mapmatching")
    old_level = lg.level
    lg.setLevel(logging.DEBUG if cf.get('debug') else logging.ERROR)     # KeepStoppedUnderDebug
    try:
        return _run_history(m, cf, ops, unique, snapshots, out), m
    finally:
        lg.setLevel(old_level)


def _run_history(m, cf, ops, unique, snapshots, out):
    for op, arg in ops:
        o = {'op': op, 'arg': arg, 'exc': ''}
        try:
            if op == 'match':
                states, idx = m.match([oloc(t) for t in range(arg)], unique=unique)
            elif op == 'extend':
                states, idx = m.match([oloc(t) for t in range(arg)], unique=unique, expand=True)
            elif op == 'widen':
                states, idx = m.increase_max_lattice_width(arg, unique=unique)
            else:
                raise common.MachineryError('unknown op ' + op)
            o['states'] = None if states is None else [[m.U(s[0]), m.U(s[1])] if isinstance(s, tuple) else [m.U(s)] for s in states]
            o['idx'] = idx
        except common.MachineryError:
            raise
        except Exception as ex:
            o['exc'] = repr(ex)[:300]
            o['states'], o['idx'] = None, -99
        o['path'] = [proj_entry(x) for x in (m.lattice_best or [])]
        o['pstamp'] = [common.stamp_of(x) for x in (m.lattice_best or [])]
        o['partial'] = sum(common.partial_replacements(m).values())
        o['now'] = m.expand_now
        o['early'] = -1 if m.early_stop_idx is None else m.early_stop_idx
        try:
            o['onlynodes'] = [m.U(n) for n in m.node_path_to_only_nodes(m.node_path)] if (m.lattice_best and m.node_path) else []
            o['onlynodes_exc'] = ''
        except Exception as ex:
            o['onlynodes'], o['onlynodes_exc'] = [], repr(ex)[:200]
        if snapshots:
            o['lat'] = proj_lattice(m)
            o['dangling'] = dangling(m)
        out.append(o)
    return out
