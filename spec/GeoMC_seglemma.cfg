CONSTANTS MODE = "seg" N = 2 K = 4 EMIT = FALSE
INIT Init
NEXT Next
INVARIANT Lemmas
