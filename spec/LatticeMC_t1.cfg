CONSTANTS Graphs = {"line"} T = 2 QE = {0, 1} QN = {0, 1} NodeModes = {TRUE} NEs = {FALSE, TRUE}
  Widths = {0, 1} Cuts = {"none", "dist"} MaxOps = 2 SAMPLE = 0 Moves = {"m11"} EMIT = FALSE
SPECIFICATION Spec
INVARIANT C01
INVARIANT C02
INVARIANT C03
INVARIANT C03b
INVARIANT C04
INVARIANT C05
INVARIANT C06
INVARIANT C07a
INVARIANT C07b
INVARIANT C08
INVARIANT C09
PROPERTY C07c
CHECK_DEADLOCK FALSE
