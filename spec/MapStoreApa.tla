---------------------------- MODULE MapStoreApa ----------------------------
(* Typed copy of the build-operation core of spec/MapStore.tla (no geometry) for Apalache:                 *)
(* inductive check of  IndInv == TypeOK /\ IndexWithinTable(w) /\ IndexWithinTable(c) /\ PropsSurvive      *)
(*                               /\ (~lost => SameContent)                                                  *)
EXTENDS Integers, FiniteSets, Apalache

\* @typeAlias: pt = <<Int, Int>>;
\* @typeAlias: sq = { nodes: Int -> $pt, nidx: Set(Int), edges: Set(<<Int, Int>>), eidx: Set(<<Int, Int>>) };
\* @typeAlias: mem = { nodes: Int -> $pt, edges: Set(<<Int, Int>>) };
\* @typeAlias: pr = { latlon: Bool };
MapStoreApa_aliases == TRUE

VARIABLES
  \* @type: $sq;
  w,
  \* @type: $sq;
  c,
  \* @type: $mem;
  im,
  \* @type: $pr;
  props,
  \* @type: $pr;
  sqprops,
  \* @type: $pr;
  improps,
  \* @type: Bool;
  lost

\* @type: (Int -> $pt, Int, $pt) => (Int -> $pt);
Ext(f, k, v) == [x \in (DOMAIN f) \cup {k} |-> IF x = k THEN v ELSE f[x]]

Pending == w # c

AddNode(n, p, noidx, nocommit) ==
  /\ n \notin DOMAIN w.nodes
  /\ w' = [w EXCEPT !.nodes = Ext(w.nodes, n, p), !.nidx = IF noidx THEN w.nidx ELSE w.nidx \cup {n}]
  /\ c' = IF nocommit THEN c ELSE w'
  /\ im' = [im EXCEPT !.nodes = Ext(im.nodes, n, p)]
  /\ UNCHANGED <<props, sqprops, improps, lost>>

AddEdge(a, b, noidx, nocommit) ==
  /\ a \in DOMAIN w.nodes /\ b \in DOMAIN w.nodes /\ a # b
  /\ w' = [w EXCEPT !.edges = w.edges \cup {<<a, b>>},
                    !.eidx = IF noidx THEN w.eidx ELSE w.eidx \cup {<<a, b>>}]
  /\ c' = IF nocommit THEN c ELSE w'
  /\ im' = [im EXCEPT !.edges = im.edges \cup {<<a, b>>}]
  /\ UNCHANGED <<props, sqprops, improps, lost>>

ReindexNodes == /\ w' = [w EXCEPT !.nidx = DOMAIN w.nodes] /\ c' = w'
                /\ UNCHANGED <<im, props, sqprops, improps, lost>>
ReindexEdges == /\ w' = [w EXCEPT !.eidx = w.edges] /\ c' = w'
                /\ UNCHANGED <<im, props, sqprops, improps, lost>>
Commit == c' = w /\ UNCHANGED <<w, im, props, sqprops, improps, lost>>
Reopen == /\ w' = c /\ sqprops' = props /\ improps' = props
          /\ lost' = (lost \/ Pending)
          /\ UNCHANGED <<c, im, props>>

Next ==
  \/ \E n \in Int, y \in Int, x \in Int, ni \in BOOLEAN, nc \in BOOLEAN : AddNode(n, <<y, x>>, ni, nc)
  \/ \E a \in Int, b \in Int, ni \in BOOLEAN, nc \in BOOLEAN : AddEdge(a, b, ni, nc)
  \/ ReindexNodes \/ ReindexEdges \/ Commit \/ Reopen

\* @type: ($sq) => Bool;
IndexWithin(s) == s.nidx \subseteq DOMAIN s.nodes /\ s.eidx \subseteq s.edges

SameContent == /\ DOMAIN w.nodes = DOMAIN im.nodes
               /\ \A n \in DOMAIN w.nodes : w.nodes[n] = im.nodes[n]
               /\ w.edges = im.edges
PropsSurvive == sqprops = props /\ improps = props
IndInv == /\ IndexWithin(w) /\ IndexWithin(c) /\ PropsSurvive
          /\ (~lost => SameContent)

Init == /\ w = [nodes |-> [x \in {} |-> <<0, 0>>], nidx |-> {}, edges |-> {}, eidx |-> {}]
        /\ c = w
        /\ im = [nodes |-> [x \in {} |-> <<0, 0>>], edges |-> {}]
        /\ props \in {[latlon |-> TRUE], [latlon |-> FALSE]}
        /\ sqprops = props /\ improps = props /\ lost = FALSE

\* arbitrary state satisfying the invariant (for the inductive step)
IndInit == /\ w = Gen(4) /\ c = Gen(4) /\ im = Gen(4) /\ props = Gen(1) /\ sqprops = Gen(1) /\ improps = Gen(1)
           /\ lost \in BOOLEAN
           /\ IndInv
=============================================================================
