CONSTANTS MODE = "pt" N = 5 K = 8 EMIT = TRUE
INIT Init
NEXT Next
INVARIANT Lemmas
INVARIANT Emit
