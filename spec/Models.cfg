SPECIFICATION MSpec
INVARIANT Report
CHECK_DEADLOCK FALSE
