"""C13 / C20 / C14: geometry primitives replayed against the exact answers computed by TLC (spec/GeoMC)."""
import math, random
from fractions import Fraction as F
from . import common
from .common import run_tlc, run_tlc_parts

R_EARTH = 6371000.0


# ---------------------------------------------------------------- embeddings
class Emb:
    """Concretisation of a grid point: (off_y + y*s, off_x + x*s), optional axis swap."""

    def __init__(self, k=0, off=(0.0, 0.0), swap=False):
        self.k, self.s, self.off, self.swap = k, 2.0 ** k, off, swap
        self.mag = max(abs(off[0]), abs(off[1])) + 8 * self.s
        # absolute tolerance: a few ulps of the largest coordinate plus relative to the scale
        self.tol = 64 * math.ulp(self.mag) + 1e-9 * self.s

    def pt(self, p):
        y, x = (p[1], p[0]) if self.swap else (p[0], p[1])
        return (self.off[0] + y * self.s, self.off[1] + x * self.s)

    def rpt(self, ynum, xnum, den):
        y, x = (xnum, ynum) if self.swap else (ynum, xnum)
        return (self.off[0] + y * self.s / den, self.off[1] + x * self.s / den)

    def name(self):
        return f'scale=2^{self.k} off={self.off} swap={self.swap}'

    def desc(self):
        return {'k': self.k, 'off': list(self.off), 'swap': self.swap}


def emb_from(d):
    return Emb(d['k'], tuple(d['off']), d['swap'])


EMBS_QUICK = [Emb(0), Emb(-3, (0.375, -2.5)), Emb(4, (10485760.0, 4194304.0), True)]
EMBS_THOROUGH = EMBS_QUICK + [Emb(-6, (1.0, 1.0), True), Emb(10, (0.0, 0.0)), Emb(1, (-8388608.0, 12582912.0)),
                              Emb(7, (3.0e6, 5.0e5))]


# projection / point-to-segment have no absolute tolerance other than the 1e-8 zero-length test, so they are
# also replayed at small scales (planar coordinates in degrees or kilometres: edges of 1e-4 .. 1e-6 units)
EMBS_TINY = [Emb(-13, (50.0, 4.0)), Emb(-16), Emb(-20, (0.5, -0.25))]


def dist(p, q):
    return math.hypot(p[0] - q[0], p[1] - q[1])


def sqrt_frac(n, d):
    return math.sqrt(n / d)


# ---------------------------------------------------------------- C13
def check_seg(de, case, emb):
    """returns None or (what, detail)"""
    a, b, c, d = (emb.pt(p) for p in case['c'])
    try:
        res = de.distance_segment_to_segment(a, b, c, d)
        dd, pf, pt, uf, ut = res
    except Exception as ex:
        return ('segment-to-segment raised ' + repr(ex), None)
    exp = sqrt_frac(*case['ss2']) * emb.s
    tol = emb.tol
    if not (abs(dd - exp) <= tol):
        return (f'distance {dd!r} differs from the true minimum distance {exp!r}', res)
    if not (-1e-12 <= uf <= 1 + 1e-12 and -1e-12 <= ut <= 1 + 1e-12):
        return (f'relative positions outside [0,1]: {uf}, {ut}', res)
    wf = (a[0] + uf * (b[0] - a[0]), a[1] + uf * (b[1] - a[1]))
    wt = (c[0] + ut * (d[0] - c[0]), c[1] + ut * (d[1] - c[1]))
    if dist(wf, pf) > tol or dist(wt, pt) > tol:
        return (f'witness points are not at the reported relative positions ({pf}@{uf}, {pt}@{ut})', res)
    if abs(dist(pf, pt) - dd) > tol:
        return (f'witness points are {dist(pf, pt)!r} apart, reported distance {dd!r}', res)
    return None


def check_pt(de, case, emb):
    p, a, b = (emb.pt(q) for q in case['c'])
    try:
        pi, ti = de.project(a, b, p)
        d2, pi2, ti2 = de.distance_point_to_segment(p, a, b)
    except Exception as ex:
        return ('projection raised ' + repr(ex), None)
    tol = emb.tol
    et = case['t'][0] / case['t'][1]
    epi = emb.rpt(*case['pp'])
    ed = sqrt_frac(*case['ps2']) * emb.s
    if abs(ti - et) > 1e-9 or abs(ti2 - et) > 1e-9:
        return (f'relative position {ti!r} differs from the exact {case["t"]}', (pi, ti))
    if dist(pi, epi) > tol or dist(pi2, epi) > tol:
        return (f'projection point {pi} differs from the nearest point {epi}', (pi, ti))
    if abs(d2 - ed) > tol:
        return (f'distance {d2!r} differs from the true distance {ed!r}', (d2, pi2, ti2))
    return None


def check_box(de, p, r, n, emb):
    """every grid point within distance r (grid units, Fraction) of p lies in the box."""
    pe = emb.pt(p)
    rr = float(r) * emb.s
    lat_b, lon_l, lat_t, lon_r = de.box_around_point(pe, rr)
    cnt = 0
    for y in range(-1, n + 2):
        for x in range(-1, n + 2):
            d2 = (y - p[0]) ** 2 + (x - p[1]) ** 2
            if F(d2) <= r * r:
                cnt += 1
                q = emb.pt((y, x))
                if not (lat_b <= q[0] <= lat_t and lon_l <= q[1] <= lon_r):
                    return cnt, (f'point {q} at distance {math.sqrt(d2) * emb.s} <= {rr} lies outside the box '
                                 f'{(lat_b, lon_l, lat_t, lon_r)}', None)
    return cnt, None


def run_c13(chk):
    from leuvenmapmatching.util import dist_euclidean as de
    thorough = chk.tier == 'thorough'
    embs = EMBS_THOROUGH if thorough else EMBS_QUICK
    chk.rule('every pair of segments / point+segment on an integer grid enumerated by TLC (GeoMC), exact '
             'rational answers from spec/Geometry.tla, replayed into dist_euclidean under scalings 2^k, '
             'exactly representable translations and the axis swap; non-trivial = degenerate class '
             '(zero-length, parallel, collinear, touching, crossing) or clamped projection')
    chk.assume('coordinates down to a scale of 2^-16 for segment pairs and 2^-20 for projections (edges of 1e-5 .. 1e-6 '
               'units); below that the zero-length test of the library (|dx|, |dy| <= 1e-8, taken as the resolution of '
               'the API) interferes')
    chk.assume('TLC/SANY, CommunityModules Json; float <-> rational comparison tolerance 64 ulp of the largest '
               'coordinate + 1e-9 * scale')
    # lemmas of the specification itself (design level)
    r = run_tlc_parts('GeoMC', 'GeoMC_seglemma.cfg', nparts=16, timeout=900)
    if r.invariant_violated:
        raise common.MachineryError('Geometry lemma violated in the specification: ' + r.tail)
    chk.tlc(r, 'lemmas: SS2=0 <=> intersect, SS2 is a lower bound of sampled distances, symmetry (3x3 grid, K=4)')
    cfg_seg, cfg_pt = ('GeoMC_seg4.cfg', 'GeoMC_pt5.cfg') if thorough else ('GeoMC_seg3.cfg', 'GeoMC_pt3.cfg')
    rs = run_tlc_parts('GeoMC', cfg_seg, nparts=16, timeout=3000)
    chk.tlc(rs, 'segment pairs: exact SS2 + class')
    rp = run_tlc_parts('GeoMC', cfg_pt, nparts=16, timeout=3000)
    if rs.invariant_violated or rp.invariant_violated:
        raise common.MachineryError('Geometry lemma violated: ' + rs.tail + rp.tail)
    chk.tlc(rp, 'point+segment: exact ProjT, ProjPt, PS2 + lemma ProjT is the minimiser (sampling K)')
    n = 4 if thorough else 3
    nontriv = 0
    for case in rs.json:
        nt = case['cls'] != 'apart'
        for ei, emb in enumerate(embs + EMBS_TINY[:2]):
            bad = check_seg(de, case, emb)
            if bad:
                chk.violation('segment-to-segment: ' + bad[0],
                              {'kind': 'seg', 'case': case, 'emb': emb.desc(), 'got': bad[1]},
                              sig={'site': 'dist_euclidean.distance_segment_to_segment', 'cls': case['cls']})
        nontriv += nt
    chk.count('seg', evaluations=len(rs.json) * (len(embs) + 2), nontrivial=nontriv, traces=len(rs.json) * (len(embs) + 2))
    chk.sample({'kind': 'seg', 'case': rs.json[len(rs.json) // 3], 'emb': embs[1].desc()})
    nontriv = 0
    for case in rp.json:
        nontriv += case['cls'] != 'inside'
        for emb in embs + EMBS_TINY:
            bad = check_pt(de, case, emb)
            if bad:
                chk.violation('project / point-to-segment: ' + bad[0],
                              {'kind': 'pt', 'case': case, 'emb': emb.desc(), 'got': bad[1]},
                              sig={'site': 'dist_euclidean.project', 'cls': case['cls']})
    chk.count('pt', evaluations=len(rp.json) * (len(embs) + len(EMBS_TINY)), nontrivial=nontriv, traces=len(rp.json) * (len(embs) + len(EMBS_TINY)))
    chk.sample({'kind': 'pt', 'case': rp.json[len(rp.json) // 2], 'emb': embs[2].desc()})
    # box contains the disc
    nb = 0
    radii = [F(1, 2), F(1), F(3, 2), F(2), F(5, 2), F(3), F(181, 128)]
    for y in range(n + 1):
        for x in range(n + 1):
            for rr in radii:
                for emb in embs:
                    cnt, bad = check_box(de, (y, x), rr, n, emb)
                    nb += 1
                    if bad:
                        chk.violation('box_around_point: ' + bad[0],
                                      {'kind': 'box', 'p': [y, x], 'r': [rr.numerator, rr.denominator], 'n': n,
                                       'emb': emb.desc()}, sig={'site': 'dist_euclidean.box_around_point'})
    chk.count('box', evaluations=nb, nontrivial=nb, traces=nb)


def replay_c13(case):
    from leuvenmapmatching.util import dist_euclidean as de
    c = case['case']
    emb = emb_from(c['emb'])
    if c['kind'] == 'seg':
        bad = check_seg(de, c['case'], emb)
    elif c['kind'] == 'pt':
        bad = check_pt(de, c['case'], emb)
    else:
        _, bad = check_box(de, tuple(c['p']), F(*c['r']), c['n'], emb)
    return bad


# ---------------------------------------------------------------- C20 planar
def match_originals(out, path, exp_flags):
    """positions of the original points inside `out` (order preserving), or None."""
    if exp_flags is not None and len(exp_flags) == len(out):
        pos = [i for i, f in enumerate(exp_flags) if f]
        if len(pos) == len(path) and all(tuple(out[i]) == tuple(path[j]) for j, i in enumerate(pos)):
            return pos
    pos, i = [], 0
    for j, p in enumerate(path):
        last = (j == len(path) - 1)
        if last:
            # the final original must be the final element
            if tuple(out[-1]) != tuple(p) or len(out) - 1 < i:
                return None
            pos.append(len(out) - 1)
            break
        while i < len(out) and tuple(out[i]) != tuple(p):      # the original as given (incl. a time component)
            i += 1
        if i >= len(out):
            return None
        pos.append(i)
        i += 1
    return pos


def check_interp_planar(de, case, emb, triples=False):
    path = [emb.pt(p) for p in case['p']]
    if triples:
        path = [(p[0], p[1], 100.0 + i) for i, p in enumerate(path)]
    dd = case['dd'][0] / case['dd'][1] * emb.s
    try:
        out = de.interpolate_path(path, dd)
    except Exception as ex:
        return 'interpolate_path raised ' + repr(ex), None
    tol = emb.tol * 8
    if tuple(out[0][:2]) != tuple(path[0][:2]) or tuple(out[-1][:2]) != tuple(path[-1][:2]):
        return 'first / last point not kept', out
    flags = [e[3] != 0 for e in case['out']]
    pos = match_originals(out, path, flags)
    if pos is None:
        return 'original points are not kept in order', out
    for k, i in enumerate(pos):
        if tuple(out[i]) != tuple(path[k]):       # kept as given, including a time component
            return f'original point {path[k]} comes back as {out[i]}', out
    for i in range(len(out) - 1):
        if dist(out[i], out[i + 1]) > dd + tol:
            return f'gap {dist(out[i], out[i + 1])!r} between output points {i},{i + 1} exceeds spacing {dd!r}', out
    for k in range(len(pos) - 1):
        p, q = path[k], path[k + 1]
        L = dist(p, q)
        prev_t = 0.0
        for i in range(pos[k] + 1, pos[k + 1]):
            w = out[i]
            if L == 0:
                if dist(w, p) > tol:
                    return f'inserted point {w} not on the (degenerate) connection', out
                continue
            t = ((w[0] - p[0]) * (q[0] - p[0]) + (w[1] - p[1]) * (q[1] - p[1])) / (L * L)
            cross = abs((w[0] - p[0]) * (q[1] - p[1]) - (w[1] - p[1]) * (q[0] - p[0])) / L
            if cross > tol or t < -tol / L or t > 1 + tol / L:
                return f'inserted point {w} does not lie on the connection {p}-{q}', out
            if t < prev_t - tol / L:
                return f'inserted points not in order along {p}-{q}', out
            prev_t = t
    if len(out) != len(case['out']):
        return ('DRIFT', f'{len(out)} output points, specification expects {len(case["out"])}')
    return None


def tangent_place(p, s, anchor):
    """grid point -> (lat, lon) degrees: metres north/east of the anchor on the local tangent plane
    (gnomonic-free simple placement: exact enough because every check is an independent spherical one)."""
    lat0, lon0 = anchor
    lat = lat0 + math.degrees(p[0] * s / R_EARTH)
    lon = lon0 + math.degrees(p[1] * s / (R_EARTH * math.cos(math.radians(lat0))))
    if lon > 180.0 or lon <= -180.0:      # maps may straddle the antimeridian: longitudes are given in (-180, 180]
        lon = ((lon + 180.0) % 360.0) - 180.0
    return (lat, lon)


def vec(p):
    la, lo = math.radians(p[0]), math.radians(p[1])
    return (math.cos(la) * math.cos(lo), math.cos(la) * math.sin(lo), math.sin(la))


def vdot(a, b): return a[0] * b[0] + a[1] * b[1] + a[2] * b[2]


def vcross(a, b): return (a[1] * b[2] - a[2] * b[1], a[2] * b[0] - a[0] * b[2], a[0] * b[1] - a[1] * b[0])


def vnorm(a): return math.sqrt(vdot(a, a))


def vsub(a, b): return (a[0] - b[0], a[1] - b[1], a[2] - b[2])


def gc_dist(p, q):
    """independent great-circle distance (vector form; a x b is computed as a x (b - a), which keeps
    full relative precision for points that are decimetres apart)."""
    a, b = vec(p), vec(q)
    return R_EARTH * math.atan2(vnorm(vcross(a, vsub(b, a))), vdot(a, b))


def gc_cross_along(w, p, q):
    """cross-track distance of w from the great circle p->q and signed along-track distance from p."""
    a, b, c = vec(p), vec(q), vec(w)
    n = vcross(a, vsub(b, a))
    nn = vnorm(n)
    if nn == 0:
        return gc_dist(w, p), 0.0
    n = (n[0] / nn, n[1] / nn, n[2] / nn)
    ca = vsub(c, a)
    xt = math.asin(max(-1.0, min(1.0, vdot(n, ca)))) * R_EARTH    # n.a = 0, so n.c = n.(c-a)
    ang = math.atan2(vdot(vcross(a, ca), n), vdot(a, c))
    return abs(xt), ang * R_EARTH


def check_interp_latlon(dl, case, s, anchor, triples=False):
    path = [tangent_place(p, s, anchor) for p in case['p']]
    if triples:
        path = [(p[0], p[1], 5.0 * i) for i, p in enumerate(path)]
    dd = case['dd'][0] / case['dd'][1] * s
    try:
        out = dl.interpolate_path(path, dd)
    except Exception as ex:
        return 'interpolate_path (lat-lon) raised ' + repr(ex), None
    tol = 1e-3  # one millimetre; the harness's own vector computations are good to ~1e-9 m at street scale
    if tuple(out[0][:2]) != tuple(path[0][:2]) or tuple(out[-1][:2]) != tuple(path[-1][:2]):
        return 'first / last point not kept', out
    pos = match_originals(out, path, None)
    if pos is None:
        return 'original points are not kept in order', out
    for k, i in enumerate(pos):
        if tuple(out[i]) != tuple(path[k]):
            return f'original point {path[k]} comes back as {out[i]}', out
    for i in range(len(out) - 1):
        g = gc_dist(out[i], out[i + 1])
        if g > dd + tol:
            return f'gap {g!r} m between output points {i},{i + 1} exceeds spacing {dd!r}', out
    for k in range(len(pos) - 1):
        p, q = path[k], path[k + 1]
        L = gc_dist(p, q)
        prev = 0.0
        for i in range(pos[k] + 1, pos[k + 1]):
            xt, at = gc_cross_along(out[i], p, q)
            if L < tol:
                if gc_dist(out[i], p) > tol:
                    return f'inserted point {out[i]} not on the degenerate connection', out
                continue
            if xt > tol or at < -tol or at > L + tol:
                return f'inserted point {out[i]} is {xt} m off the great circle {p}-{q} (along {at} of {L})', out
            if at < prev - tol:
                return 'inserted points not in order along the great circle', out
            prev = at
    return None


ANCHORS = [(50.87, 4.70), (0.0, 0.0), (-33.9, 151.2), (59.5, -135.0), (35.0, 179.0), (12.5, -77.0)]


def run_c20(chk):
    from leuvenmapmatching.util import dist_euclidean as de
    from leuvenmapmatching.util import dist_latlon as dl
    thorough = chk.tier == 'thorough'
    chk.rule('every path of 1..3 (thorough: ..4 on 5x5... see tlc_runs) grid points x 6 rational spacings enumerated '
             'by TLC; the C20 formulas are model-checked on the specification\'s own Interp output; the real '
             'interpolate_path output is checked against the property clauses (first/last kept, originals in '
             'order, inserted points on the connection in order, no gap above the spacing) under planar '
             'embeddings, as (y,x,time) triples, and placed on the sphere at several anchors (independent '
             '3-D vector computation of cross-track / along-track / gap); non-trivial = at least one point inserted')
    chk.assume('lat-lon tolerance 1 mm; anchors below 60 degrees latitude, away from the antimeridian by > 0.5 degree')
    r = run_tlc_parts('GeoMC', 'GeoMC_path4.cfg' if thorough else 'GeoMC_path3.cfg', nparts=16, timeout=3000)
    if r.invariant_violated:
        raise common.MachineryError('Interp formulas violated in the specification: ' + r.tail)
    chk.tlc(r, 'paths x spacings: Interp + InterpOK')
    embs = (EMBS_THOROUGH if thorough else EMBS_QUICK)
    rng = random.Random(chk.seed)
    nontriv = 0
    ev = 0
    for ci, case in enumerate(r.json):
        inserted = any(e[3] == 0 for e in case['out'])
        nontriv += inserted
        for ei, emb in enumerate(embs):
            if not thorough and ei > 0 and (ci + ei) % 3:
                continue
            tri = ((ci + ei) % 5 == 0)
            bad = check_interp_planar(de, case, emb, triples=tri)
            ev += 1
            if bad and bad[0] == 'DRIFT':
                chk.spec_drift(f'interpolate_path: {bad[1]} on {case["p"]} dd={case["dd"]}')
            elif bad:
                chk.violation('interpolate_path (planar): ' + bad[0],
                              {'kind': 'interp', 'case': case, 'emb': emb.desc(), 'triples': tri, 'got': bad[1]},
                              sig={'site': 'dist_euclidean.interpolate_path'})
        # lat-lon placement
        if thorough or ci % 4 == 0:
            anchor = ANCHORS[rng.randrange(len(ANCHORS))]
            s = rng.choice([0.5, 3.0, 25.0, 400.0])
            tri = (ci % 7 == 0)
            bad = check_interp_latlon(dl, case, s, anchor, triples=tri)
            ev += 1
            if bad:
                chk.violation('interpolate_path (lat-lon): ' + bad[0],
                              {'kind': 'interp_ll', 'case': case, 's': s, 'anchor': list(anchor), 'triples': tri,
                               'got': bad[1]}, sig={'site': 'dist_latlon.interpolate_path'})
    chk.count('interp', evaluations=ev, nontrivial=nontriv, traces=ev)
    chk.sample({'kind': 'interp', 'case': r.json[len(r.json) // 2]})


def replay_c20(case):
    from leuvenmapmatching.util import dist_euclidean as de
    from leuvenmapmatching.util import dist_latlon as dl
    c = case['case']
    if c['kind'] == 'interp':
        bad = check_interp_planar(de, c['case'], emb_from(c['emb']), c.get('triples', False))
        return None if (bad and bad[0] == 'DRIFT') else bad
    return check_interp_latlon(dl, c['case'], c['s'], tuple(c['anchor']), c.get('triples', False))


def run(chk):
    {'C13': run_c13, 'C20': run_c20, 'C14': run_c14}[chk.pid](chk)


def replay(pid, case):
    bad = {'C13': replay_c13, 'C20': replay_c20, 'C14': replay_c14}[pid](case)
    if bad:
        print(f'VIOLATION property={pid} replay=(given)   # {bad[0]}')
        return 1
    print('replay: property holds on this case')
    return 0


# ---------------------------------------------------------------- C14 (geodesic primitives)
def unvec(v):
    n = vnorm(v)
    return (math.degrees(math.asin(max(-1.0, min(1.0, v[2] / n)))), math.degrees(math.atan2(v[1], v[0])))


def sph_point_to_segment(w, p, q):
    """independent spherical point-to-geodesic-segment: (distance, nearest point, relative position)"""
    L = gc_dist(p, q)
    if L == 0:
        return gc_dist(w, p), p, 0.0
    xt, at = gc_cross_along(w, p, q)
    if at <= 0:
        return gc_dist(w, p), p, 0.0
    if at >= L:
        return gc_dist(w, q), q, 1.0
    a, b = vec(p), vec(q)
    n = vcross(a, vsub(b, a))
    nn = vnorm(n)
    n = (n[0] / nn, n[1] / nn, n[2] / nn)
    e = vcross(n, a)
    th = at / R_EARTH
    pt = (a[0] * math.cos(th) + e[0] * math.sin(th), a[1] * math.cos(th) + e[1] * math.sin(th),
          a[2] * math.cos(th) + e[2] * math.sin(th))
    return xt, unvec(pt), at / L


def sph_seg_intersect(p1, p2, q1, q2):
    a1, a2, b1, b2 = vec(p1), vec(p2), vec(q1), vec(q2)
    n1, n2 = vcross(a1, vsub(a2, a1)), vcross(b1, vsub(b2, b1))
    s1, s2 = vdot(n2, vsub(a1, b1)), vdot(n2, vsub(a2, b1))
    s3, s4 = vdot(n1, vsub(b1, a1)), vdot(n1, vsub(b2, a1))
    return s1 * s2 < 0 and s3 * s4 < 0


def sph_seg_to_seg(p1, p2, q1, q2):
    if sph_seg_intersect(p1, p2, q1, q2):
        return 0.0
    return min(sph_point_to_segment(q1, p1, p2)[0], sph_point_to_segment(q2, p1, p2)[0],
               sph_point_to_segment(p1, q1, q2)[0], sph_point_to_segment(p2, q1, q2)[0])


def c14_pt_case(dl, case, s, anchor):
    p, a, b = (tangent_place(q, s, anchor) for q in case['c'])
    ext = 8 * s
    tolp = 0.5 + 2 * ext * ext / R_EARTH
    told = 0.2 + 2 * ext * ext / R_EARTH
    try:
        d, pi, ti = dl.distance_point_to_segment(p, a, b)
        d2, pi2, ti2 = dl.distance_point_to_segment(p, b, a)
    except Exception as ex:
        return 'distance_point_to_segment raised ' + repr(ex), None
    ed, epi, et = sph_point_to_segment(p, a, b)
    L = gc_dist(a, b)
    if abs(d - ed) > told:
        return f'distance {d!r} m differs from the spherical distance {ed!r} m', (d, pi, ti)
    if gc_dist(pi, epi) > tolp:
        return f'projection point is {gc_dist(pi, epi)!r} m away from the nearest point of the segment', (d, pi, ti)
    if not (-1e-12 <= ti <= 1 + 1e-12) or abs(ti - et) * L > tolp:
        return f'relative position {ti!r} differs from {et!r}', (d, pi, ti)
    # clamping decided on cases that are not knife-edges (exact case from the specification)
    if case['cls'] == 'before' and ti != 0.0:
        return f'point projects before the segment (exact case) but relative position is {ti!r}', (d, pi, ti)
    if case['cls'] == 'after' and ti != 1.0:
        return f'point projects after the segment (exact case) but relative position is {ti!r}', (d, pi, ti)
    # invariance under swapping the end points
    if abs(d - d2) > told or gc_dist(pi, pi2) > tolp or abs((1 - ti2) - ti) * L > tolp:
        return f'not invariant under swapping the end points: {(d, pi, ti)} vs {(d2, pi2, ti2)}', (d, pi, ti)
    return None


def c14_seg_case(dl, case, s, anchor):
    a, b, c, d = (tangent_place(q, s, anchor) for q in case['c'])
    ext = 8 * s
    tolp = 0.5 + 2 * ext * ext / R_EARTH
    told = 0.2 + 3 * ext * ext / R_EARTH      # the library's local frame adds ~ext^2 tan(lat)/R
    try:
        dd, pf, pt, uf, ut = dl.distance_segment_to_segment(a, b, c, d)
    except Exception as ex:
        return 'distance_segment_to_segment raised ' + repr(ex), None
    ed = sph_seg_to_seg(a, b, c, d)
    if abs(dd - ed) > told:
        return f'distance {dd!r} m differs from the spherical segment distance {ed!r} m', (dd, pf, pt, uf, ut)
    if not (-1e-12 <= uf <= 1 + 1e-12 and -1e-12 <= ut <= 1 + 1e-12):
        return f'relative positions outside [0,1]: {uf}, {ut}', (dd, pf, pt, uf, ut)
    # witnesses on their segments at the reported relative positions, and realising the distance
    for (w, u, p, q) in ((pf, uf, a, b), (pt, ut, c, d)):
        L = gc_dist(p, q)
        xt, at = gc_cross_along(w, p, q)
        if L > 0 and (xt > tolp or abs(at - u * L) > tolp):
            return f'witness {w} is not at relative position {u!r} of its segment (cross {xt}, along {at} of {L})', (dd, pf, pt, uf, ut)
        if L == 0 and gc_dist(w, p) > tolp:
            return f'witness {w} not on the zero-length segment', (dd, pf, pt, uf, ut)
    if abs(gc_dist(pf, pt) - dd) > told + tolp:
        return f'witness points are {gc_dist(pf, pt)!r} m apart, reported distance {dd!r}', (dd, pf, pt, uf, ut)
    return None


def c14_box(dl, p, r, nb):
    """every point within r of p (sampled just inside the circle, all bearings + the analytic extremes) is in the box"""
    lat_b, lon_l, lat_t, lon_r = dl.box_around_point(p, r)
    a = vec(p)
    # local east / north unit vectors
    east = (-math.sin(math.radians(p[1])), math.cos(math.radians(p[1])), 0.0)
    north = vcross(a, east)
    th = (r - max(r * 1e-9, 1e-6)) / R_EARTH        # just inside the circle: one micrometre / 1e-9 relative
    for k in range(nb):
        be = 2 * math.pi * k / nb
        dirv = tuple(north[i] * math.cos(be) + east[i] * math.sin(be) for i in range(3))
        q = unvec(tuple(a[i] * math.cos(th) + dirv[i] * math.sin(th) for i in range(3)))
        if not (lat_b <= q[0] <= lat_t and lon_l <= q[1] <= lon_r):
            return f'point {q} at {gc_dist(p, q)!r} m <= {r} m from {p} (bearing {math.degrees(be):.2f}) lies outside the box {(lat_b, lon_l, lat_t, lon_r)}'
    return None


def run_c14(chk):
    from leuvenmapmatching.util import dist_latlon as dl
    thorough = chk.tier == 'thorough'
    rng = random.Random(chk.seed + 14)
    chk.rule('point+segment and segment-pair cases enumerated by TLC (exact case: before / inside / after, crossing / '
             'touching / parallel / collinear / zero-length / apart) are placed on the sphere at several anchors and '
             'scales (segments from decimetres to kilometres) and compared with an independent 3-D vector computation; '
             'clamping is decided on the exact non-knife-edge cases; swap invariance; distance vs vector great-circle '
             'distance and destination(distance, bearing) round trips on random point pairs from 0.1 m to 5000 km; '
             'box containment on circles from 1 m to 500 km up to latitude 80; non-trivial = degenerate / clamped class')
    chk.assume('tolerance budget: positions 0.5 m + 2 ext^2/R, distances 0.2 m + 2..3 ext^2/R (ext = 8 grid units); '
               'the library\'s acos-based along-track formula has a resolution of about 0.1 m')
    chk.assume('latitudes <= 80 degrees for the box, <= 60 for segments; longitudes at least 0.5 degree from the antimeridian')
    rp = run_tlc_parts('GeoMC', 'GeoMC_pt3.cfg', nparts=16, timeout=3000)
    chk.tlc(rp, 'point+segment cases with exact ProjCase')
    rs = run_tlc_parts('GeoMC', 'GeoMC_seg3.cfg' if thorough else 'GeoMC_seg2.cfg', nparts=16, timeout=3000)
    chk.tlc(rs, 'segment pairs with exact class')
    scales = [0.05, 0.4, 3.0, 25.0, 250.0]
    ev = nt = 0
    for ci, case in enumerate(rp.json):
        if case['cls'] in ('at0', 'at1'):
            continue
        for rep in range(2 if thorough else 1):
            s, anchor = rng.choice(scales), rng.choice(ANCHORS)
            bad = c14_pt_case(dl, case, s, anchor)
            ev += 1
            nt += case['cls'] != 'inside'
            if bad:
                chk.violation('lat-lon point-to-segment: ' + bad[0], {'kind': 'll_pt', 'case': case, 's': s, 'anchor': list(anchor), 'got': bad[1]},
                              sig={'site': 'dist_latlon.distance_point_to_segment', 'cls': case['cls']})
    chk.count('ll_pt', evaluations=ev, nontrivial=nt, traces=ev)
    ev = nt = 0
    for ci, case in enumerate(rs.json):
        if not thorough and ci % 2:
            continue
        s, anchor = rng.choice(scales), rng.choice(ANCHORS)
        bad = c14_seg_case(dl, case, s, anchor)
        ev += 1
        nt += case['cls'] != 'apart'
        if bad:
            chk.violation('lat-lon segment-to-segment: ' + bad[0], {'kind': 'll_seg', 'case': case, 's': s, 'anchor': list(anchor), 'got': bad[1]},
                          sig={'site': 'dist_latlon.distance_segment_to_segment', 'cls': case['cls']})
    chk.count('ll_seg', evaluations=ev, nontrivial=nt, traces=ev)
    chk.sample({'kind': 'll_seg', 'case': rs.json[len(rs.json) // 3], 'anchor': list(ANCHORS[0]), 's': 25.0})
    # distance / bearing / destination on random pairs
    n = 20000 if thorough else 4000
    for i in range(n):
        lat = rng.uniform(-75, 75)
        lon = rng.uniform(-170, 170)
        dist = 10 ** rng.uniform(-1, 6.7)
        be = rng.uniform(-math.pi, math.pi)
        la2, lo2 = dl.destination_radians(math.radians(lat), math.radians(lon), be, dist)
        q = (math.degrees(la2), math.degrees(lo2))
        p = (lat, lon)
        if abs(q[0]) > 85 or abs(q[1]) > 179.5:
            continue
        d = dl.distance(p, q)
        e = gc_dist(p, q)
        tol = 1e-6 + 1e-9 * e
        what = None
        if abs(d - e) > tol:
            what = f'distance {d!r} differs from the great-circle distance {e!r}'
        elif abs(d - dist) > 1e-5 + 1e-9 * dist:
            what = f'destination does not invert distance: asked {dist!r}, distance to the result is {d!r}'
        else:
            b2 = dl.bearing_radians(math.radians(lat), math.radians(lon), la2, lo2)
            la3, lo3 = dl.destination_radians(math.radians(lat), math.radians(lon), b2, d)
            back = gc_dist(q, (math.degrees(la3), math.degrees(lo3)))
            if back > 1e-4 + 1e-9 * dist:
                what = f'destination(distance, bearing) misses the target by {back!r} m'
            elif abs(dl.distance(q, p) - d) > tol:
                what = 'distance is not symmetric'
        if what:
            chk.violation('lat-lon distance / destination: ' + what, {'kind': 'll_dist', 'p': list(p), 'dist': dist, 'bearing': be},
                          sig={'site': 'dist_latlon.distance'})
    chk.count('ll_dist', evaluations=n, nontrivial=n, traces=n)
    nb = 0
    for i in range(4000 if thorough else 800):
        lat = rng.choice([rng.uniform(-80, 80), rng.uniform(55, 80), rng.uniform(-80, -55)])
        lon = rng.uniform(-150, 150)
        r = 10 ** rng.uniform(0, 5.7)
        if abs(lat) + math.degrees(r / R_EARTH) > 88:
            continue
        bad = c14_box(dl, (lat, lon), r, 72)
        nb += 1
        if bad:
            chk.violation('lat-lon box_around_point: ' + bad, {'kind': 'll_box', 'p': [lat, lon], 'r': r},
                          sig={'site': 'dist_latlon.box_around_point'})
    chk.count('ll_box', evaluations=nb, nontrivial=nb, traces=nb)


def replay_c14(case):
    from leuvenmapmatching.util import dist_latlon as dl
    c = case['case']
    if c['kind'] == 'll_pt':
        return c14_pt_case(dl, c['case'], c['s'], tuple(c['anchor']))
    if c['kind'] == 'll_seg':
        return c14_seg_case(dl, c['case'], c['s'], tuple(c['anchor']))
    if c['kind'] == 'll_box':
        b = c14_box(dl, tuple(c['p']), c['r'], 72)
        return (b, None) if b else None
    return None
