CONSTANTS Graphs = {"line", "tri", "dead", "selfl", "pair"} T = 3 QE = {0, 1, 2, 3} QN = {0, 1, 2} NodeModes = {TRUE, FALSE} NEs = {TRUE}
  Widths = {0, 1, 2} Cuts = {"none", "dist", "init", "prob", "both"} MaxOps = 1 SAMPLE = 2 Moves = {"m11", "m00"} EMIT = FALSE
  ExhGraphs = {} Debugs = {FALSE} REUSE = FALSE
SPECIFICATION Spec
INVARIANT C10orderNE
CHECK_DEADLOCK FALSE
