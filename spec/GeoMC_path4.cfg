CONSTANTS MODE = "path" N = 4 K = 0 EMIT = TRUE
INIT Init
NEXT Next
INVARIANT Lemmas
INVARIANT Emit
