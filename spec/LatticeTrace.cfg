SPECIFICATION TraceSpec
INVARIANT Report
CHECK_DEADLOCK FALSE
