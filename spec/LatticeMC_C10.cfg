CONSTANTS Graphs = {"line", "tri", "dead", "selfl", "pair"} T = 3 QE = {0, 1, 2, 3} QN = {0, 1, 2} NodeModes = {TRUE, FALSE} NEs = {FALSE}
  Widths = {0, 1, 2} Cuts = {"none", "dist", "init", "prob", "both"} MaxOps = 1 SAMPLE = 8 Moves = {"m11", "m00"} EMIT = FALSE
  ExhGraphs = {} Debugs = {FALSE} REUSE = FALSE
SPECIFICATION Spec
INVARIANT C10order
CHECK_DEADLOCK FALSE
