---------------------------- MODULE LatticeTrace ----------------------------
(***************************************************************************)
(* Trace validation for the matcher core.  A batch of recorded runs of the *)
(* real matcher (one run = one matcher object, one instance, a history of  *)
(* public calls; after every call the returned value, lattice_best, the    *)
(* full projected lattice, the snapshots of every expansion, and the       *)
(* companion runs the relational properties need) is read from JSON.       *)
(* For every event TLC                                                     *)
(*   - evaluates the property formulas of LatticeProps on the RECORDED     *)
(*     observables, computing the oracles (all admissible walks, model     *)
(*     score of the path, legal moves) from the instance tables itself;    *)
(*   - steps Lattice.DoMatch with the logged arguments and compares the    *)
(*     recorded lattice with the specification's (diagnostic: drift).      *)
(* Verdicts are total: per run and property the first failing clause and   *)
(* the event index, or nothing.                                            *)
(***************************************************************************)
EXTENDS LatticeProps, TLC, Json, IOUtils

Batch == JsonDeserialize(IOEnv.TRACE_FILE)
Runs == Batch.runs

VARIABLES tid, i, M, plen, verdict     \* plen: current trace length of the recorded matcher
tvars == <<tid, i, M, plen, verdict>>

PIDS == {"C01", "C02", "C03", "C04", "C05", "C06", "C07", "C08", "C09", "DRIFT", "SKIP"}
S2(q) == {q[j] : j \in 1..Len(q)}

\* ---- instance and configuration of the current run, converted from JSON
Run == Runs[tid]
T == Run.inst.T
Rows == Run.inst.tab
Sts == {Rows[j].st : j \in 1..Len(Rows)}
Row(st) == Rows[CHOOSE j \in 1..Len(Rows) : Rows[j].st = st]
Fn(field) == [st \in Sts |-> [t \in 0..(T - 1) |-> Row(st)[field][t + 1]]]
Inst == [ nodes |-> S2(Run.inst.nodes),
          nbrs |-> [n \in S2(Run.inst.nodes) |->
                      (CHOOSE x \in S2(Run.inst.nbrs) : x[1] = n)[2]],
          linked |-> [st \in {s \in Sts : IsEdge(s)} |-> Row(st).linked],
          dE |-> Fn("dE"), lE |-> Fn("lE"), dN |-> Fn("dN"), lN |-> Fn("lN"),
          tiE |-> [st \in {s \in Sts : IsEdge(s)} |-> [t \in 0..(T - 1) |-> Row(st).ti[t + 1]]],
          skipNE |-> Fn("skip"), tr |-> Run.inst.tr,
          hasTT |-> Run.inst.hasTT,
          tt |-> [k \in {<<x[1], x[2], x[3]>> : x \in S2(Run.inst.tt)} |->
                    (CHOOSE x \in S2(Run.inst.tt) : <<x[1], x[2], x[3]>> = k)[4]] ]
Cf0 == Run.cf
Ev == Run.events[i + 1]
CfAt(ev) == [Cf0 EXCEPT !.W = ev.w]

\* canonical result of a recorded observation: <<index, best emitting log-probability in that column>>
RCanon(o) == IF Len(o.path) = 0 THEN <<-1, 0>> ELSE <<o.idx, BestEmitting(o.lat, o.idx)>>
ACanon(a) == IF a.empty THEN <<-1, 0>>
             ELSE <<a.idx, CHOOSE v \in S2(a.lps) : \A u \in S2(a.lps) : u <= v>>
PathSig(p) == [j \in 1..Len(p) |-> <<Key(p[j]), p[j].lp>>]
FirstOrder(cf) == ~cf.secondOrder
Fresh(ev) == ev.op = "match"
HistNoWiden == \A j \in 1..(i + 1) : Run.events[j].op # "widen"

NOf(ev) == IF ev.op = "widen" THEN plen ELSE ev.arg
\* ---- clauses, per property; "" = holds
\* Fixed-point robustness of the probability cut-off (real matchers only, cf.slack > 0): the optimum must not change
\* when the threshold moves by the conversion slack; otherwise the instance is a knife-edge and is skipped (counted).
RobustOpt(I, cf, n) ==
  cf.slack = 0 \/
  LET lo == [cf EXCEPT !.minlp = <<cf.minlp[1] - cf.slack, cf.minlp[2]>>]
      hi == [cf EXCEPT !.minlp = <<cf.minlp[1] + cf.slack, cf.minlp[2]>>]
      a == OptIdx(I, lo, n)  b == OptIdx(I, hi, n) IN
  a = b /\ (a = -1 \/ OptScore(I, lo, a) = OptScore(I, hi, a))
OracleApplies(cf, ev) == cf.oracle /\ Fresh(ev) /\ ~cf.ne /\ cf.W = NoW /\ FirstOrder(cf)
C01Clause(I, cf, ev) ==
  IF OracleApplies(cf, ev) /\ RobustOpt(I, cf, ev.arg)
     /\ ~Optimal(I, cf, ev.arg, [path |-> ev.path, idx |-> ev.idx]) THEN "not-optimal" ELSE ""
SkipClause(I, cf, ev) == IF OracleApplies(cf, ev) /\ ~RobustOpt(I, cf, ev.arg) THEN "nonrobust-threshold" ELSE ""
C02Clause(I, cf, ev) ==
  IF ~cf.tables THEN ""
  ELSE LET bad == {j \in 1..Len(ev.path) : ~StepOK(I, cf, ev.path, j)} IN
       IF bad = {} THEN (IF PathScoresMatchModel(I, cf, ev.path) THEN "" ELSE "path-score")     \* (equivalent; kept as a cross-check)
       ELSE IF \E j \in bad : ~StaleStep(ev.pstamp, j) THEN "path-score"
       ELSE IF ev.partial # 0 THEN "path-score"         \* an in-place replacement kept a field of the replaced entry (Upsert replaces it whole)
       ELSE "path-score-stale-after-expansion"        \* every failing step has the F-stale pattern
C03Clause(I, cf, ev) ==
  IF ev.op = "cwd" THEN "" ELSE      \* continue_with_distance returns nothing; the next re-match is checked
  LET complete == Len(ev.path) > 0 /\ ev.idx = NOf(ev) - 1
      sts == [j \in 1..Len(ev.path) |-> ev.path[j].st]
  IN IF ~Aligned(ev.path, ev.idx, complete) THEN "not-aligned"
     ELSE IF ev.states # (IF ev.unique THEN UniqueStates(sts) ELSE sts) THEN "states-differ-from-best-path"
     ELSE IF Len(ev.path) = 0 /\ ev.idx # 0 THEN "empty-result-index"
     ELSE IF Len(ev.path) = 0 /\ ev.states # << >> THEN "states-without-best-path"
     ELSE IF Len(ev.path) = 0 /\ Len(ev.lat) > 0 /\ Len(Live(LayerOf(ev.lat, 0, 0))) > 0
          THEN "empty-result-although-the-first-observation-has-a-live-candidate"
     ELSE IF Len(ev.path) > 0 /\ ev.idx # ev.path[Len(ev.path)].obs THEN "index-not-last-emitting"
     ELSE IF Len(ev.path) > 0 /\ complete /\ ev.early # -1 THEN "complete-but-early-stop"
     ELSE IF cf.oracle /\ Fresh(ev) /\ ~cf.ne /\ cf.W = NoW /\ FirstOrder(cf) /\ ((Len(ev.path) = 0) # (Reach(I, cf, 0) = {}))
          THEN "empty-iff-no-admissible-first-candidate"
     ELSE IF cf.oracle /\ Fresh(ev) /\ ~cf.ne /\ cf.W = NoW /\ FirstOrder(cf) /\ Len(ev.path) > 0 /\ ev.idx # OptIdx(I, cf, NOf(ev))
          THEN "index-not-longest-explainable-prefix"
     ELSE ""
C04Clause(I, cf, ev) ==
  LET sts == [j \in 1..Len(ev.path) |-> ev.path[j].st]
      on == OnlyNodes(sts) IN
  IF ~IsWalk(I, ev.path) THEN "not-a-walk"
  ELSE IF Len(ev.path) > 0 /\ \A e \in DOMAIN I.linked : I.linked[e] = << >> THEN
       (IF ev.onlynodes_exc # "" THEN "nodes-only-view-raises"
        ELSE IF ev.onlynodes # OnlyNodes(IF ev.unique THEN UniqueStates(sts) ELSE sts) THEN "nodes-only-view-differs"
        ELSE IF ~NodesAdjacent(I, ev.onlynodes) THEN "nodes-only-view-not-adjacent" ELSE "")
  ELSE ""
C05Clause(I, cf, ev) == IF ~CutoffsHonoured(cf, ev.path) THEN "cutoff-not-honoured" ELSE ""
C06Clause(I, cf, ev) ==
  IF ev.aux.neoff.present /\ ~CanonLeq(ACanon(ev.aux.neoff), RCanon(ev), ev.arg) THEN "non-emitting-makes-match-worse" ELSE ""
SnapOK(s) ==    \* s = [c, k, now, W, kind, rows]: rows of <<lp, delayed, stop>>
  LET live == SelectSeq(s.rows, LAMBDA r : ~r[3])
      X == {j \in 1..Len(live) : live[j][2] <= s.now}
      P == {j \in 1..Len(live) : live[j][2] > s.now}
  IN /\ \A p \in P : \A x \in X : live[p][1] < live[x][1]          \* postponed strictly less probable: exact ties
     /\ s.W # NoW => \A x \in X : Cardinality({j \in 1..Len(live) : live[j][1] > live[x][1]}) < s.W   \* are expanded together
     /\ s.W = NoW => P = {}
C07Clause(I, cf, ev) ==
  IF \E j \in 1..Len(ev.snaps) : ~SnapOK(ev.snaps[j]) THEN "expansion-not-the-W-best"
  ELSE IF Fresh(ev) /\ ~SelectionSoundG(ev.lat, cf.W, 0, cf.slack = 0) THEN "postponed-more-probable-than-expanded"
  ELSE IF ev.aux.unpruned.present /\ ~CanonLeq(RCanon(ev), ACanon(ev.aux.unpruned), NOf(ev)) THEN
       \* signature of the recorded finding F-pathdep-prune: the scoring is path dependent (non-emitting
       \* states or a second-order penalty) and the pruned run reports its path truthfully
       (IF (cf.ne \/ cf.secondOrder) /\ (~cf.tables \/ PathScoresMatchModel(I, cf, ev.path))
        THEN "pruned-beats-unpruned-under-path-dependent-scoring" ELSE "pruned-beats-unpruned")
  ELSE IF ev.aux.wide.present /\ ev.aux.unpruned.present /\ ACanon(ev.aux.wide) # ACanon(ev.aux.unpruned)
       THEN "wide-enough-differs-from-unpruned"
  ELSE IF ev.op = "widen" /\ i > 0 /\ ~CanonLeq(RCanon(Run.events[i]), RCanon(ev), NOf(ev)) THEN "widening-not-monotone"
  ELSE ""
C08Clause(I, cf, ev) ==
  IF ~ev.aux.oneshot.present THEN ""
  ELSE IF ACanon(ev.aux.oneshot) # RCanon(ev) THEN "incremental-result-differs-from-one-shot"
  ELSE IF ev.aux.oneshot.path # PathSig(ev.path) THEN "incremental-path-differs-from-one-shot"
  ELSE ""
C09Clause(I, cf, ev) == IF ~WellFormed(ev.lat) THEN "lattice-not-well-formed"
                        ELSE IF ev.dangling # << >> THEN "predecessor-object-or-key-anomaly" ELSE ""

\* ---- conformance with the specification's own lattice (diagnostic)
SpecStep(I, cf, ev) ==
  IF ev.op = "match" THEN DoMatch(I, cf, M, ev.arg, FALSE)      \* a fresh call, possibly on a matcher used before
  ELSE IF ev.op = "extend" THEN DoMatch(I, cf, M, ev.arg, TRUE)
  ELSE DoMatch(I, cf, M, M.n, TRUE)
DriftClause(mr, ev) ==
  IF mr.R.path = << >> /\ mr.M.lat = << >> THEN ""        \* not computed (no tables)
  ELSE IF mr.R.idx # ev.idx \/ PathSig(mr.R.path) # PathSig(ev.path) THEN "result-differs-from-specification"
  ELSE IF mr.M.lat # ev.lat THEN "lattice-differs-from-specification"
  ELSE IF \E j \in 1..Len(ev.path) : ev.pstamp[j][1] # 0 /\ ev.pstamp[j][2] # mr.M.rnd[Key(ev.path[j])]
       THEN "scoring-round-of-a-path-entry-differs-from-specification"
  ELSE ""

Clause(p, I, cf, ev, mr) ==
  IF ev.exc # "" THEN (IF p \in {"DRIFT", "SKIP"} THEN "" ELSE "operation-raised")
  ELSE CASE p = "C01" -> C01Clause(I, cf, ev) [] p = "C02" -> C02Clause(I, cf, ev)
         [] p = "C03" -> C03Clause(I, cf, ev) [] p = "C04" -> C04Clause(I, cf, ev)
         [] p = "C05" -> C05Clause(I, cf, ev) [] p = "C06" -> C06Clause(I, cf, ev)
         [] p = "C07" -> C07Clause(I, cf, ev) [] p = "C08" -> C08Clause(I, cf, ev)
         [] p = "C09" -> C09Clause(I, cf, ev) [] p = "DRIFT" -> DriftClause(mr, ev)
         [] p = "SKIP" -> SkipClause(I, cf, ev)

Want == S2(Batch.pids)     \* the properties to evaluate in this batch

TraceInit == /\ tid \in 1..Len(Runs) /\ i = 0 /\ M = NewMatcher /\ plen = 0
             /\ verdict = [p \in Want |-> << >>]
TraceNext ==
  /\ i < Len(Run.events)
  /\ LET ev == Ev  cf == CfAt(ev)  I == Inst
         mr == IF "DRIFT" \in Want /\ cf.tables THEN SpecStep(I, cf, ev) ELSE [M |-> NewMatcher, R |-> [path |-> << >>, idx |-> 0]]
     IN /\ M' = mr.M /\ plen' = NOf(ev)
        /\ verdict' = [p \in Want |->
              IF verdict[p] # << >> THEN verdict[p]
              ELSE LET cl == Clause(p, I, cf, ev, mr) IN IF cl = "" THEN << >> ELSE << <<cl, i + 1>> >>]
  /\ i' = i + 1 /\ tid' = tid
TraceSpec == TraceInit /\ [][TraceNext]_tvars

Report == i = Len(Run.events) =>
   PrintT(ToJson([tid |-> Run.tid, n |-> i,
                  v |-> [p \in Want |-> [k \in 1..Len(verdict[p]) |-> [clause |-> verdict[p][k][1], at |-> verdict[p][k][2]]]]]))
=============================================================================
