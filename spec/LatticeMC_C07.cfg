CONSTANTS Graphs = {"line", "tri", "dead", "selfl", "pair"} T = 3 QE = {0, 1, 2, 3} QN = {0, 1, 2} NodeModes = {TRUE, FALSE} NEs = {TRUE, FALSE}
  Widths = {1, 2} Cuts = {"none", "dist", "prob"} MaxOps = 3 SAMPLE = 2 Moves = {"m11"} EMIT = FALSE
  ExhGraphs = {} Debugs = {FALSE} REUSE = FALSE
SPECIFICATION Spec
INVARIANT C07a
INVARIANT C07b
PROPERTY C07c
CHECK_DEADLOCK FALSE
