CONSTANTS Graphs = {"line", "tri", "dead", "selfl", "pair", "star4", "ring4"} T = 4 QE = {0, 1, 2, 3} QN = {0, 1, 2} NodeModes = {TRUE, FALSE} NEs = {TRUE, FALSE}
  Widths = {0, 2} Cuts = {"none", "dist"} MaxOps = 3 SAMPLE = 2 Moves = {"m11"} EMIT = TRUE
  ExhGraphs = {} Debugs = {FALSE} REUSE = FALSE
SPECIFICATION Spec
INVARIANT EmitBehaviour
CHECK_DEADLOCK FALSE
