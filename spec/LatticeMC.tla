----------------------------- MODULE LatticeMC -----------------------------
(***************************************************************************)
(* Model-checking wrapper: TLC's nondeterminism enumerates instances       *)
(* (graph x weight tables x configuration) and histories of public calls   *)
(* Match(k) (Extend(k) | Widen(w))*; the actions are the algorithm's big   *)
(* steps (Lattice.DoMatch).  The property formulas of LatticeProps are     *)
(* invariants / action properties.  Each behaviour is also printed as one  *)
(* JSON line so that the harness can replay it on the real BaseMatcher.    *)
(***************************************************************************)
EXTENDS LatticeProps, TLC, Json, IOUtils, Randomization

CONSTANTS Graphs,      \* subset of DOMAIN GraphDefs
          T,           \* number of observations
          QE, QN,      \* quality classes of emitting / non-emitting cells
          NodeModes,   \* subset of BOOLEAN: onlyEdges values
          NEs,         \* subset of BOOLEAN
          Widths,      \* subset of Nat (0 = NoW)
          Cuts,        \* subset of DOMAIN CutDefs
          MaxOps,      \* history length bound
          SAMPLE,      \* 0 = every table; k > 0 = k random tables per graph (seeded by TLC's -seed)
          ExhGraphs,   \* graphs whose emitting-only, edge-state instances are enumerated completely
          Moves,       \* subset of DOMAIN MoveDefs (transition terms)
          Debugs,      \* subset of BOOLEAN: package logger at DEBUG
          EMIT,
          REUSE        \* TRUE: the matcher object may be reused for a fresh match() (expand = FALSE) at any point of a history

VARIABLES I, cf, M, R, hist
vars == <<I, cf, M, R, hist>>

Seq2(a, b) == <<a, b>>
GraphDefs ==
  [ chain   |-> [nodes |-> {1, 2, 3}, nbrs |-> (1 :> <<2>>) @@ (2 :> <<3>>) @@ (3 :> << >>)],
    line    |-> [nodes |-> {1, 2, 3}, nbrs |-> (1 :> <<2>>) @@ (2 :> <<1, 3>>) @@ (3 :> <<2>>)],
    tri     |-> [nodes |-> {1, 2, 3}, nbrs |-> (1 :> <<2>>) @@ (2 :> <<3, 1>>) @@ (3 :> <<1>>)],
    dead    |-> [nodes |-> {1, 2, 3}, nbrs |-> (1 :> <<2>>) @@ (2 :> <<1, 3>>) @@ (3 :> << >>)],
    selfl   |-> [nodes |-> {1, 2, 3}, nbrs |-> (1 :> <<2, 1>>) @@ (2 :> <<3, 1, 2>>) @@ (3 :> <<2, 3>>)],
    pair    |-> [nodes |-> {1, 2}, nbrs |-> (1 :> <<2>>) @@ (2 :> <<1>>)],
    star4   |-> [nodes |-> {1, 2, 3, 4}, nbrs |-> (1 :> <<2, 3, 4>>) @@ (2 :> <<1>>) @@ (3 :> <<1>>) @@ (4 :> <<1>>)],
    ring4   |-> [nodes |-> {1, 2, 3, 4}, nbrs |-> (1 :> <<2>>) @@ (2 :> <<3, 1>>) @@ (3 :> <<4>>) @@ (4 :> <<1, 3>>)] ]
MoveDefs == [ m11 |-> <<-1, -1>>, m00 |-> <<0, 0>>, m10 |-> <<-1, 0>>, m12 |-> <<-1, -2>> ]
CutDefs ==
  [ none  |-> [maxDist |-> Inf, maxDistInit |-> Inf, minlp |-> NoMin],
    dist  |-> [maxDist |-> 2, maxDistInit |-> 2, minlp |-> NoMin],
    init  |-> [maxDist |-> 3, maxDistInit |-> 2, minlp |-> NoMin],
    prob  |-> [maxDist |-> Inf, maxDistInit |-> Inf, minlp |-> <<-3, 2>>],
    both  |-> [maxDist |-> 2, maxDistInit |-> 3, minlp |-> <<-5, 2>>] ]
\* quality class -> <<emission term, distance>>; distance 3 is beyond maxDist 2, and exactly 2 is the boundary
QEDef == (0 :> <<0, 0>>) @@ (1 :> <<-2, 2>>) @@ (2 :> <<-3, 3>>) @@ (3 :> <<-1, 1>>)
QNDef == (0 :> <<0, 1>>) @@ (1 :> <<-2, 3>>) @@ (2 :> <<-1, 0>>)

GNodes(g) == GraphDefs[g].nodes
GEdges(g) == {e \in GNodes(g) \X GNodes(g) : e[1] # e[2] /\ \E j \in 1..Len(GraphDefs[g].nbrs[e[1]]) : GraphDefs[g].nbrs[e[1]][j] = e[2]}
GStates(g, onlyEdges) == GEdges(g) \cup (IF onlyEdges THEN {} ELSE {<<n>> : n \in GNodes(g)})
CellsE(g, oe) == GStates(g, oe) \X (0..(T - 1))
CellsN(g, oe) == GStates(g, oe) \X (0..(T - 2))
Sample(exh, S) == IF SAMPLE = 0 \/ exh THEN S ELSE RandomSubset(SAMPLE, S)

MkInst(g, oe, qe, qn, mv) ==
  LET sts == GStates(g, oe) IN
  [ nodes |-> GNodes(g), nbrs |-> GraphDefs[g].nbrs,
    linked |-> [e \in GEdges(g) |-> << >>],
    dE |-> [st \in sts |-> [t \in 0..(T - 1) |-> QEDef[qe[<<st, t>>]][2]]],
    lE |-> [st \in sts |-> [t \in 0..(T - 1) |-> QEDef[qe[<<st, t>>]][1]]],
    dN |-> [st \in sts |-> [t \in 0..(T - 1) |-> IF t < T - 1 THEN QNDef[qn[<<st, t>>]][2] ELSE 0]],
    lN |-> [st \in sts |-> [t \in 0..(T - 1) |-> IF t < T - 1 THEN QNDef[qn[<<st, t>>]][1] ELSE 0]],
    tiE |-> [st \in GEdges(g) |-> [t \in 0..(T - 1) |-> IF qe[<<st, t>>] = 3 THEN 0 ELSE 1]],
    skipNE |-> [st \in sts |-> [t \in 0..(T - 1) |-> FALSE]],
    tr |-> [move |-> mv[1], moveNE |-> mv[2], back |-> 0], hasTT |-> FALSE, tt |-> << >> ]

Init ==
  \E g \in Graphs, oe \in NodeModes, ne \in NEs, w \in Widths, cut \in Cuts, mv \in Moves, dbg \in Debugs :
    \E qe \in Sample(g \in ExhGraphs /\ oe /\ ~ne, [CellsE(g, oe) -> QE]) :
      \E qn \in (IF ne THEN Sample(FALSE, [CellsN(g, oe) -> QN]) ELSE {[x \in CellsN(g, oe) |-> 0]}) :
        /\ I = MkInst(g, oe, qe, qn, MoveDefs[mv])
        /\ cf = [onlyEdges |-> oe, ne |-> ne, W |-> w, neLen |-> -1, neMax |-> 100, secondOrder |-> FALSE, slack |-> 0, tables |-> TRUE, oracle |-> TRUE, debug |-> dbg,
                 maxDist |-> CutDefs[cut].maxDist, maxDistInit |-> CutDefs[cut].maxDistInit,
                 minlp |-> CutDefs[cut].minlp]
        /\ M = NewMatcher /\ R = [path |-> << >>, idx |-> 0, early |-> -1] /\ hist = << >>

Obs(mr, op, arg, w) == [op |-> op, arg |-> arg, w |-> w, idx |-> mr.R.idx, path |-> mr.R.path, lat |-> mr.M.lat,
                        now |-> mr.M.expandNow]
Match(k) == /\ hist = << >>
            /\ LET mr == FreshMatch(I, cf, k) IN
               /\ M' = mr.M /\ R' = mr.R /\ hist' = <<Obs(mr, "match", k, cf.W)>>
            /\ UNCHANGED <<I, cf>>
Extend(k) == /\ hist # << >> /\ Len(hist) < MaxOps /\ k > M.n
             /\ LET mr == DoMatch(I, cf, M, k, TRUE) IN
                /\ M' = mr.M /\ R' = mr.R /\ hist' = Append(hist, Obs(mr, "extend", k, cf.W))
             /\ UNCHANGED <<I, cf>>
Widen(w) == /\ hist # << >> /\ Len(hist) < MaxOps /\ cf.W # NoW /\ w > cf.W
            /\ LET cf2 == [cf EXCEPT !.W = w]  mr == DoMatch(I, cf2, M, M.n, TRUE) IN
               /\ M' = mr.M /\ R' = mr.R /\ cf' = cf2 /\ hist' = Append(hist, Obs(mr, "widen", w, w))
            /\ UNCHANGED I
\* a fresh match() on a matcher object that has been used before: everything is rebuilt, nothing of the earlier calls may
\* leak into the result (ReuseIsFresh)
Rematch(k) == /\ REUSE /\ hist # << >> /\ Len(hist) < MaxOps
              /\ LET mr == DoMatch(I, cf, M, k, FALSE) IN
                 /\ M' = mr.M /\ R' = mr.R /\ hist' = Append(hist, Obs(mr, "match", k, cf.W))
              /\ UNCHANGED <<I, cf>>
Next == \/ \E k \in 1..T : Match(k) \/ Extend(k) \/ Rematch(k)
        \/ \E w \in 1..4 : Widen(w)
Spec == Init /\ [][Next]_vars

\* ---- properties (design level)
Done == hist # << >>
Ops == [j \in 1..Len(hist) |-> hist[j].op]
OnlyMatch == Len(hist) = 1
NoWiden == \A j \in 1..Len(hist) : hist[j].op # "widen"
Complete == R.path # << >> /\ R.idx = M.n - 1
C01 == (OnlyMatch /\ ~cf.ne /\ cf.W = NoW) => Optimal(I, cf, M.n, R)
\* C02.  A fresh match reports exactly the model score of its path.  After expansion calls the same holds except at an
\* entry whose predecessor was replaced in place in a later call (finding F-stale: the implementation, and therefore
\* this specification, does not re-score the successors of a replaced entry when the re-scored candidate is not better
\* or the replaced entry is postponed again); C02strict is the property as stated and is violated by such histories.
C02 == /\ (OnlyMatch => PathScoresMatchModel(I, cf, R.path))
       /\ (Done => PathScoresMatchModelModuloStale(I, cf, M.rnd, R.path))
C02strict == Done => PathScoresMatchModel(I, cf, R.path)
C03 == Done => /\ Aligned(R.path, R.idx, Complete)
               /\ (R.path = << >> => R.idx = 0)
C03b == (OnlyMatch /\ ~cf.ne /\ cf.W = NoW) => (R.path = << >> <=> Reach(I, cf, 0) = {})
C04 == Done => /\ IsWalk(I, R.path)
               /\ NodesAdjacent(I, OnlyNodes([j \in 1..Len(R.path) |-> R.path[j].st]))
C05 == Done => CutoffsHonoured(cf, R.path)
C06 == (OnlyMatch /\ cf.ne /\ cf.W = NoW) =>
          CanonLeq(Canon(FreshMatch(I, [cf EXCEPT !.ne = FALSE], M.n)), Canon([M |-> M, R |-> R]), M.n)
C07a == OnlyMatch => SelectionSound(M.lat, cf.W, 0)
C07b == (OnlyMatch /\ cf.W # NoW) =>
          /\ CanonLeq(Canon([M |-> M, R |-> R]), Canon(FreshMatch(I, [cf EXCEPT !.W = NoW], M.n)), M.n)
          /\ Canon(FreshMatch(I, [cf EXCEPT !.W = 50], M.n)) = Canon(FreshMatch(I, [cf EXCEPT !.W = NoW], M.n))
C07c == [][(\E w \in 1..4 : Widen(w)) => CanonLeq(Canon([M |-> M, R |-> R]), Canon([M |-> M', R |-> R']), M.n)]_vars
C08 == (Done /\ NoWiden) =>
          LET one == FreshMatch(I, cf, M.n) IN
          /\ Canon(one) = Canon([M |-> M, R |-> R])
          /\ [j \in 1..Len(one.R.path) |-> <<Key(one.R.path[j]), one.R.path[j].lp>>]
               = [j \in 1..Len(R.path) |-> <<Key(R.path[j]), R.path[j].lp>>]
C09 == WellFormed(M.lat)
\* C19 at design level: with the logger at DEBUG (stopped candidates materialised, KeepStoppedUnderDebug, and
\* replaced in an order-neutral way, OrderNeutralUnderDebug) the observables are those of the default level.
\* History: before the two repairs of the non-emitting helpers and of upsert, TLC exhibited counterexamples to
\* C19all (different probability through the admission test; a different choice among equally probable paths);
\* C19scoped / C19noties are the weaker statements that held before the repairs and are kept as regression lemmas.
ObsOf(mr) == <<mr.R.idx, [j \in 1..Len(mr.R.path) |-> <<Key(mr.R.path[j]), mr.R.path[j].lp>>]>>
NoTies(lat) == \A c \in 1..Len(lat) : \A k \in 1..Len(lat[c]) :
                  LET L == Live(lat[c][k]) IN \A a, b \in 1..Len(L) : a # b => L[a].lp # L[b].lp
DebugNeutral == ObsOf(FreshMatch(I, [cf EXCEPT !.debug = TRUE], M.n)) = ObsOf([M |-> M, R |-> R])
C19scoped == (OnlyMatch /\ ~cf.debug /\ ~cf.ne /\ NoTies(M.lat)) => DebugNeutral
C19all == (OnlyMatch /\ ~cf.debug) => DebugNeutral
C19noties == (OnlyMatch /\ ~cf.debug /\ NoTies(M.lat) /\ NoTies(FreshMatch(I, [cf EXCEPT !.debug = TRUE], M.n).M.lat)) => DebugNeutral
\* C10 / C16 at design level: reversing every neighbour list (listing order) leaves the canonical result unchanged
RevI == [I EXCEPT !.nbrs = [n \in DOMAIN I.nbrs |-> Reverse(I.nbrs[n])]]
\* Reversing every neighbour list leaves the canonical result unchanged.  Claimed for the emitting-only search; with
\* non-emitting states it holds on small scopes only: the search admits candidates against the side table in proposal
\* order and the visited-node filter follows the kept predecessor (finding F-ne-order), and TLC produces a
\* counterexample to C10orderNE on the larger scope of the thorough tier.
C10order == (OnlyMatch /\ ~cf.ne) => Canon(FreshMatch(RevI, cf, M.n)) = Canon([M |-> M, R |-> R])
C10orderNE == (OnlyMatch /\ cf.ne) => Canon(FreshMatch(RevI, cf, M.n)) = Canon([M |-> M, R |-> R])

\* a fresh call on a used matcher gives exactly what a new matcher gives
ReuseIsFresh == (hist # << >> /\ hist[Len(hist)].op = "match") =>
                  LET f == FreshMatch(I, cf, M.n) IN f.R = R /\ f.M.lat = M.lat /\ f.M.expandNow = M.expandNow

\* ---- emission of behaviours for replay: one line per maximal or bounded history
EmitBehaviour ==
  (EMIT /\ hist # << >>) =>
     PrintT(ToJson([inst |-> [nodes |-> SetToSeq(I.nodes),
                              nbrs |-> [n \in I.nodes |-> I.nbrs[n]],
                              sts |-> SetToSeq(DOMAIN I.dE),
                              tab |-> [j \in 1..Cardinality(DOMAIN I.dE) |->
                                         LET st == SetToSeq(DOMAIN I.dE)[j] IN
                                         [st |-> st, dE |-> I.dE[st], lE |-> I.lE[st], dN |-> I.dN[st], lN |-> I.lN[st],
                                          ti |-> IF IsEdge(st) THEN I.tiE[st] ELSE [t \in 0..(T - 1) |-> 1]]],
                              tr |-> I.tr, T |-> T],
                    cf |-> cf, hist |-> hist]))
=============================================================================
