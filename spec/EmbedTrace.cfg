SPECIFICATION ESpec
INVARIANT Report
CHECK_DEADLOCK FALSE
