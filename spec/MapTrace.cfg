CONSTANTS NodeIds = {} 
CONSTANT Coord <- NoCoord
SPECIFICATION TraceSpec
INVARIANT Report
CHECK_DEADLOCK FALSE
