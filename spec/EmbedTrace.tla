----------------------------- MODULE EmbedTrace -----------------------------
(***************************************************************************)
(* Embedding invariance.  A specification instance is abstract: it has no  *)
(* spelling of labels, no listing order beyond what the specification      *)
(* models, no hash seed, no logging level, no time stamps, no backend, no  *)
(* coordinate frame.  The harness runs one instance under several          *)
(* concretisations and records each run; every concretisation has to       *)
(* refine the same abstract behaviour, i.e. all runs of a group have the   *)
(* same observables (after mapping labels back), within the tolerance      *)
(* class the concretisation allows:                                        *)
(*    \A r \in Group : Obs(r) ~ Obs(base)                                  *)
(* One TLC run validates a batch of groups; verdicts are total.            *)
(***************************************************************************)
EXTENDS LatticeProps, Geometry, TLC, Json, IOUtils

Batch == JsonDeserialize(IOEnv.TRACE_FILE)
Groups == Batch.groups
VARIABLES gid, done
evars == <<gid, done>>
S2(q) == {q[j] : j \in 1..Len(q)}
AbsV(x) == IF x < 0 THEN -x ELSE x

G == Groups[gid]
Base == G.runs[1]
PathSig(p) == [j \in 1..Len(p) |-> Key(p[j])]
Lps(p) == [j \in 1..Len(p) |-> p[j].lp]
Best(r) == IF Len(r.path) = 0 THEN 0 ELSE r.path[Len(r.path)].lp
\* no two live entries of one layer of the base lattice are equally probable, and no two candidate last states either
TieFree(lat) ==
  \A c \in 1..Len(lat) : \A k \in 1..Len(lat[c]) :
     LET L == Live(lat[c][k]) IN \A a, b \in 1..Len(L) : a # b => L[a].lp # L[b].lp
Close(a, b, tol) == AbsV(a - b) <= tol
\* tolerance of a run: absolute (fixed-point units) plus relative part rel / 100000 of the magnitude
\* (values at the saturation mark are minus infinity, e.g. a Newson-Krumm emission term that underflowed: no relative part,
\* and the product would leave TLC's 32-bit range)
Tol(r, v) == IF AbsV(v) >= 20000000 THEN r.tol ELSE r.tol + (AbsV(v) * r.rel) \div 100000

\* A "primitive" group records the planar geometry primitives (point-segment and segment-segment distance, relative
\* position) of one abstract configuration evaluated in several coordinate frames; values are mapped back to the
\* abstract frame, one path entry per value.
PrimClause(r) ==
  IF Base.exc # "" THEN "operation-raised:" \o Base.name
  ELSE IF r.exc # "" THEN "operation-raised:" \o r.name
  ELSE IF Len(r.path) # Len(Base.path) THEN "primitive-value-differs:" \o r.name
  ELSE IF \E j \in 1..Len(r.path) : ~Close(r.path[j].lp, Base.path[j].lp, Tol(r, Base.path[j].lp))
       THEN "primitive-value-differs:" \o r.name
  ELSE ""

RunClause(r) ==
  IF G.kind = "primitive" THEN PrimClause(r) ELSE
  IF Base.exc # "" THEN "operation-raised:" \o Base.name
  ELSE IF r.exc # "" THEN "operation-raised:" \o r.name
  ELSE IF r.idx # Base.idx THEN "matched-index-differs:" \o r.name
  ELSE IF (Len(r.path) = 0) # (Len(Base.path) = 0) THEN "empty-result-differs:" \o r.name
  ELSE IF ~Close(Best(r), Best(Base), Tol(r, Best(Base))) THEN "best-probability-differs:" \o r.name
  ELSE IF r.exact /\ r.states # Base.states THEN
       (IF Batch.pid = "C19" /\ Best(r) = Best(Base) THEN "debug-changes-choice-among-equally-probable-paths:" \o r.name
        ELSE "returned-states-differ:" \o r.name)
  ELSE IF r.exact /\ PathSig(r.path) # PathSig(Base.path) THEN
       (IF Batch.pid = "C19" /\ Best(r) = Best(Base) THEN "debug-changes-choice-among-equally-probable-paths:" \o r.name
        ELSE "best-path-differs:" \o r.name)
  ELSE IF r.exact /\ \E j \in 1..Len(r.path) : ~Close(r.path[j].lp, Base.path[j].lp, Tol(r, Base.path[j].lp))
       THEN "path-probabilities-differ:" \o r.name
  ELSE IF r.tiefree_path /\ TieFree(Base.lat) /\ PathSig(r.path) # PathSig(Base.path) THEN "best-path-differs-without-ties:" \o r.name
  ELSE ""

(* Robustness of a C15 group, decided in exact arithmetic on the abstract (quarter-grid) coordinates:
   with node-and-edge states an emitting edge candidate is dropped when its relative position is 0 or 1,
   so an observation lying exactly on the perpendicular through an end point of some road is a knife-edge
   that a 1e-9 perturbation (the sphere) flips.  Such groups are reported as skipped, never as violations. *)
Robust ==
  G.check_robust =>
     \A o \in S2(G.obs4) : \A e \in S2(G.edges4) :
        ProjCase(<<o[1], o[2]>>, <<e[1], e[2]>>, <<e[3], e[4]>>) \notin {"at0", "at1"}

RECURSIVE FirstBad(_)
FirstBad(j) == IF j > Len(G.runs) THEN ""
               ELSE LET cl == RunClause(G.runs[j]) IN IF cl # "" THEN cl ELSE FirstBad(j + 1)

EInit == gid \in 1..Len(Groups) /\ done = FALSE
ENext == ~done /\ done' = TRUE /\ gid' = gid
ESpec == EInit /\ [][ENext]_evars
Report == done => PrintT(ToJson([gid |-> G.gid, robust |-> Robust,
                                  verdict |-> IF Robust THEN FirstBad(2) ELSE "", n |-> Len(G.runs)]))
=============================================================================
