------------------------------ MODULE MapTrace ------------------------------
(* Trace validation for the map backends: recorded histories of build        *)
(* operations on a real SqliteMap and a real InMemMap (same history on both) *)
(* are stepped through MapStore's actions with the logged arguments; after   *)
(* every step the logged answers of the query API are compared with the      *)
(* specification's observables, and logged spatial queries with the          *)
(* declarative NodesWithin / EdgesWithin and the exact geometry.             *)
(* One TLC run validates a whole batch; the verdict per run is total:        *)
(* "ok" or the name of the first failing clause (with the event index).      *)
EXTENDS MapStore, Json, IOUtils, SequencesExt

NoCoord == << >>
Batch == JsonDeserialize(IOEnv.TRACE_FILE)
Runs == Batch.runs

SC == 65536        \* fixed-point scale of logged squared distances and relative positions
PSC == 4096        \* fixed-point scale of logged projection points
SLACK == 3         \* rounding slack, in units of the scale
EPSD == 250        \* lat-lon placement: relative tolerance 1/EPSD on squared distances

VARIABLES tid, i, verdict   \* verdict: property id -> sequence of <<clause, event index, missed elements>>
                            \* (C11: every failing query; C12 / C18: the first failing clause)
tvars == <<w, c, im, props, sqprops, improps, lost, tid, i, verdict>>

Ev == Runs[tid].events[i + 1]
Approx == Runs[tid].approx     \* TRUE for lat-lon placements

S2(seq) == ToSet(seq)
Pt(x) == <<x[1], x[2]>>

\* ---- first failing clause of a logged listing observation against a specification state
NbrMap(o) == [k \in {x[1] : x \in S2(o.nbrs)} |-> S2((CHOOSE x \in S2(o.nbrs) : x[1] = k)[2])]
\* linked ("parallel") edges handed to the in-memory map at construction; part of what a pickle must preserve
ImLinked(e) == LET S == {x \in S2(Runs[tid].imlinked) : <<x[1][1], x[1][2]>> = e} IN
               IF S = {} THEN {} ELSE {<<y[1], y[2]>> : y \in S2((CHOOSE x \in S : TRUE)[2])}
ObsClause(o, size, labels, nodes, nbrs(_), allnodes, alledges, bb, pr, linked(_)) ==
  IF o.err # "" THEN "no-exception"
  ELSE IF o.size # size THEN "size"
  ELSE IF S2(o.labels) # labels \/ Len(o.labels) # size THEN "labels"
  ELSE IF \E x \in S2(o.coords) : x[1] \notin labels \/ Pt(<<x[2], x[3]>>) # nodes[x[1]] THEN "node_coordinates"
  ELSE IF {x[1] : x \in S2(o.coords)} # labels THEN "node_coordinates-missing"
  ELSE IF \E n \in labels : n \notin DOMAIN NbrMap(o) \/ NbrMap(o)[n] # nbrs(n) THEN "nodes_nbrto"
  ELSE IF \E x \in S2(o.enbrs) : S2(x[3]) # {<<x[2], y>> : y \in nbrs(x[2])} \cup linked(<<x[1], x[2]>>) THEN "edges_nbrto"
  ELSE IF S2(o.allnodes) # allnodes \/ Len(o.allnodes) # Cardinality(allnodes) THEN "all_nodes"
  ELSE IF {Pt(x) : x \in S2(o.alledges)} # alledges \/ Len(o.alledges) # Cardinality(alledges) THEN "all_edges"
  ELSE IF o.bb # bb THEN "bb"
  ELSE "ok"
PropsClause(o, pr) ==
  IF o.err # "" THEN "ok"
  ELSE IF o.latlon # pr.latlon THEN "use_latlon-flag"
  ELSE IF o.latlonfn # pr.latlon THEN "distance-functions-metric"
  ELSE IF o.crs # pr.crs THEN "projection-settings"
  ELSE "ok"

SqClause(o) == ObsClause(o, SqSize(w'), SqLabels(w'), w'.nodes, LAMBDA n : SqNbrs(w', n),
                         SqAllNodes(w'), SqAllEdges(w'), SqBB(w'), props', LAMBDA e : {})
ImClause(o) == ObsClause(o, Cardinality(DOMAIN im'.nodes), DOMAIN im'.nodes, im'.nodes,
                         LAMBDA n : {e[2] : e \in {e \in im'.edges : e[1] = n}} \cup {n},
                         DOMAIN im'.nodes, im'.edges, BBOf(im', DOMAIN im'.nodes), props',
                         LAMBDA e : {f \in ImLinked(e) : f[1] \in DOMAIN im'.nodes /\ f[2] \in DOMAIN im'.nodes})

\* ---- spatial query clauses
AbsV(x) == IF x < 0 THEN -x ELSE x
\* membership with margin (exact when ~Approx)
Must(d2, r2) == IF Approx THEN RLess(<<d2[1] * (EPSD + 1), d2[2] * EPSD>>, r2) ELSE RLess(d2, r2)
May(d2, r2)  == IF Approx THEN RLess(<<d2[1] * (EPSD - 1), d2[2] * EPSD>>, r2) ELSE RLeq(d2, r2)
\* An element EXACTLY at the radius is a floating-point knife-edge (the projection / square root rounds either way),
\* so it may or may not be returned - except when the computation is exact in floating point: a point distance
\* whose square is a perfect square (distance and radius are then exactly representable).  There the strict
\* inequality of the property is enforced.
IsSquare(n) == \E k \in 0..n : k * k = n
ExactlyAtRadius(d2, r2) == ~Approx /\ REq(d2, r2) /\ d2[2] = 1 /\ IsSquare(d2[1])
\* logged squared distance fx agrees with the exact rational d2
DistOK(fx, d2) ==
  LET tol == IF Approx THEN SLACK * d2[2] + (2 * d2[1] * SC) \div EPSD + d2[2] * 64 ELSE SLACK * d2[2] IN
  AbsV(fx * d2[2] - d2[1] * SC) <= tol
SortedOK(res, col) == \A j \in 1..(Len(res) - 1) : res[j][col] <= res[j + 1][col] + SLACK

\* nodes: res elements <<id, d2fx>>
NodeQClause(q, nodes, ids) ==
  LET must == {n \in ids : Must(<<D2(Pt(q.p), nodes[n]), 1>>, q.r2)}
      may  == {n \in ids : May(<<D2(Pt(q.p), nodes[n]), 1>>, q.r2)}
      got  == {x[1] : x \in S2(q.res)}
  IN IF q.exc # "" THEN "no-exception"
     ELSE IF Len(q.res) # Cardinality(got) THEN "closeto-duplicates"
     ELSE IF ~(got \subseteq may) THEN "closeto-returns-element-outside-radius"
     ELSE IF \E n \in got : ExactlyAtRadius(<<D2(Pt(q.p), nodes[n]), 1>>, q.r2) THEN "closeto-returns-element-exactly-at-the-radius"
     ELSE IF \E x \in S2(q.res) : ~DistOK(x[2], <<D2(Pt(q.p), nodes[x[1]]), 1>>) THEN "closeto-distance"
     ELSE IF ~SortedOK(q.res, 2) THEN "closeto-sorted"
     ELSE IF q.k = 0 /\ ~(must \subseteq got) THEN "closeto-misses-element-within-radius"
     ELSE IF q.k > 0 /\ Len(q.res) > q.k THEN "closeto-truncation"
     ELSE IF q.k > 0 /\ Len(q.res) < q.k /\ ~(must \subseteq got) THEN "closeto-misses-element-within-radius"
     ELSE IF q.k > 0 /\ Len(q.res) = q.k /\
             \E n \in must \ got : \E x \in S2(q.res) : ~Approx /\ D2(Pt(q.p), nodes[n]) < D2(Pt(q.p), nodes[x[1]])
          THEN "closeto-truncation-drops-closer-element"
     ELSE "ok"

\* edges: res elements <<a, b, d2fx, tfx, piyfx, pixfx>>
EdgeQClause(q, nodes, es) ==
  LET ps2(e) == PS2(Pt(q.p), nodes[e[1]], nodes[e[2]])
      must == {e \in es : Must(ps2(e), q.r2)}
      may  == {e \in es : May(ps2(e), q.r2)}
      got  == {<<x[1], x[2]>> : x \in S2(q.res)}
      ttol == IF Approx THEN SC \div 50 ELSE SLACK
      ptol == IF Approx THEN PSC \div 16 ELSE SLACK
  IN IF q.exc # "" THEN "no-exception"
     ELSE IF Len(q.res) # Cardinality(got) THEN "closeto-duplicates"
     ELSE IF ~(got \subseteq may) THEN "closeto-returns-element-outside-radius"
     ELSE IF \E e \in got : ProjCase(Pt(q.p), nodes[e[1]], nodes[e[2]]) \in {"zero", "before", "after", "at0", "at1"}
                              /\ ExactlyAtRadius(ps2(e), q.r2) THEN "closeto-returns-element-exactly-at-the-radius"
     ELSE IF \E x \in S2(q.res) : ~DistOK(x[3], ps2(<<x[1], x[2]>>)) THEN "closeto-distance"
     ELSE IF \E x \in S2(q.res) :
               LET t == ProjT(Pt(q.p), nodes[x[1]], nodes[x[2]]) IN AbsV(x[4] * t[2] - t[1] * SC) > ttol * t[2]
          THEN "closeto-relative-position"
     ELSE IF \E x \in S2(q.res) :
               LET pp == ProjPt(Pt(q.p), nodes[x[1]], nodes[x[2]]) IN
               \/ AbsV(x[5] * pp[3] - pp[1] * PSC) > ptol * pp[3]
               \/ AbsV(x[6] * pp[3] - pp[2] * PSC) > ptol * pp[3]
          THEN "closeto-projection-point"
     ELSE IF ~SortedOK(q.res, 3) THEN "closeto-sorted"
     ELSE IF q.k = 0 /\ ~(must \subseteq got) THEN "closeto-misses-element-within-radius"
     ELSE IF q.k > 0 /\ Len(q.res) > q.k THEN "closeto-truncation"
     ELSE IF q.k > 0 /\ Len(q.res) < q.k /\ ~(must \subseteq got) THEN "closeto-misses-element-within-radius"
     ELSE IF q.k > 0 /\ Len(q.res) = q.k /\
             \E e \in must \ got : \E x \in S2(q.res) : ~Approx /\ RLess(ps2(e), ps2(<<x[1], x[2]>>))
          THEN "closeto-truncation-drops-closer-element"
     ELSE "ok"

BoxQClause(q, nodes, ids) ==
  IF q.exc # "" THEN "no-exception"
  ELSE IF S2(q.res) # {n \in ids : InBB(<<2 * nodes[n][1], 2 * nodes[n][2]>>, q.bb)}   \* q.bb in half grid units
          \/ Len(q.res) # Cardinality(S2(q.res))
       THEN "all_nodes-box" ELSE "ok"

QClause(q) ==
  IF q.be = "sq" THEN
     (IF q.kind = "n" THEN NodeQClause(q, w'.nodes, SqAllNodes(w'))
      ELSE IF q.kind = "e" THEN EdgeQClause(q, w'.nodes, SqAllEdges(w'))
      ELSE BoxQClause(q, w'.nodes, SqAllNodes(w')))
  ELSE
     (IF q.kind = "n" THEN NodeQClause(q, im'.nodes, DOMAIN im'.nodes)
      ELSE IF q.kind = "e" THEN EdgeQClause(q, im'.nodes, im'.edges)
      ELSE BoxQClause(q, im'.nodes, DOMAIN im'.nodes))

\* elements within the radius that a query failed to return (reported with the verdict)
QMissed(q) ==
  LET nodes == IF q.be = "sq" THEN w'.nodes ELSE im'.nodes
      full == q.k = 0 \/ Len(q.res) < q.k     \* not truncated: everything within the radius is owed
  IN
  IF q.kind = "n" THEN
     LET ids == IF q.be = "sq" THEN SqAllNodes(w') ELSE DOMAIN im'.nodes
         d(n) == D2(Pt(q.p), nodes[n]) IN
     {n \in {n \in ids : Must(<<d(n), 1>>, q.r2)} \ {x[1] : x \in S2(q.res)} :
          full \/ \E x \in S2(q.res) : d(n) < d(x[1])}
  ELSE IF q.kind = "e" THEN
     LET es == IF q.be = "sq" THEN SqAllEdges(w') ELSE im'.edges
         d(e) == PS2(Pt(q.p), nodes[e[1]], nodes[e[2]]) IN
     {e \in {e \in es : Must(d(e), q.r2)} \ {<<x[1], x[2]>> : x \in S2(q.res)} :
          full \/ \E x \in S2(q.res) : RLess(d(e), d(<<x[1], x[2]>>))}
  ELSE {}
\* first failing query among those of the given kinds: <<clause, index>>
RECURSIVE FirstBadQ(_, _, _)
FirstBadQ(qs, j, kinds) ==
  IF j > Len(qs) THEN <<"ok", 0>>
  ELSE IF qs[j].kind \notin kinds THEN FirstBadQ(qs, j + 1, kinds)
  ELSE LET cl == QClause(qs[j]) IN
       IF cl = "ok" THEN FirstBadQ(qs, j + 1, kinds)
       ELSE <<qs[j].be \o ":" \o qs[j].kind \o ":" \o cl \o ":q" \o ToString(j), j>>

\* every failing query of the given kinds, as <<clause, event index, missed elements>>
RECURSIVE AllBadQ(_, _, _)
AllBadQ(qs, j, kinds) ==
  IF j > Len(qs) THEN << >>
  ELSE IF qs[j].kind \notin kinds THEN AllBadQ(qs, j + 1, kinds)
  ELSE LET cl == QClause(qs[j]) IN
       IF cl = "ok" THEN AllBadQ(qs, j + 1, kinds)
       ELSE << <<qs[j].be \o ":" \o qs[j].kind \o ":" \o cl \o ":q" \o ToString(j), i + 1, QMissed(qs[j])>> >>
              \o AllBadQ(qs, j + 1, kinds)

\* C18: a reopen with nothing pending must not change any answer (same queries are re-issued by the recorder)
PrevEv == Runs[tid].events[i]
ReopenClause ==
  IF Ev.op # "reopen" \/ i = 0 THEN "ok"
  ELSE IF [Ev.im EXCEPT !.err = ""] # [PrevEv.im EXCEPT !.err = ""] THEN "im:reopen-changes-listing-or-settings"
  ELSE IF ~Pending /\ [Ev.sq EXCEPT !.err = ""] # [PrevEv.sq EXCEPT !.err = ""] THEN "sq:reopen-changes-listing-or-settings"
  ELSE IF Len(Ev.q) = Len(PrevEv.q) /\ \E j \in 1..Len(Ev.q) :
            /\ (Ev.q[j].be = "im" \/ ~Pending)
            /\ [Ev.q[j] EXCEPT !.res = <<>>] = [PrevEv.q[j] EXCEPT !.res = <<>>]
            /\ Ev.q[j].res # PrevEv.q[j].res
       THEN "reopen-changes-query-answer"
  ELSE "ok"

\* three verdicts per step, one per property that owns the clause
Listing == LET a == SqClause(Ev.sq) IN IF a # "ok" THEN "sq:" \o a
           ELSE LET b == ImClause(Ev.im) IN IF b # "ok" THEN "im:" \o b ELSE "ok"
Props == LET a == PropsClause(Ev.sq, props') IN IF a # "ok" THEN "sq:" \o a
         ELSE LET b == PropsClause(Ev.im, props') IN IF b # "ok" THEN "im:" \o b ELSE "ok"
StepVerdict(pid) ==
  CASE pid = "C11" -> LET f == FirstBadQ(Ev.q, 1, {"n", "e"}) IN
                      <<f[1], IF f[2] = 0 THEN {} ELSE QMissed(Ev.q[f[2]])>>
    [] pid = "C12" -> IF Listing # "ok" THEN <<Listing, {}>> ELSE <<FirstBadQ(Ev.q, 1, {"box"})[1], {}>>
    [] pid = "C18" -> IF Props # "ok" THEN <<Props, {}>>
                      ELSE IF Ev.op = "reopen" /\ Listing # "ok" THEN <<Listing, {}>>
                      ELSE <<ReopenClause, {}>>
PIDS == {"C11", "C12", "C18"}

\* ---- the trace actions: MapStore's action with the logged arguments
Apply ==
  CASE Ev.op = "add_node"  -> AddNode(Ev.n, Pt(Ev.p), Ev.noidx, Ev.nocommit)
    [] Ev.op = "add_nodes" -> AddNodes({<<x[1], Pt(x[2])>> : x \in S2(Ev.S)})
    [] Ev.op = "add_edge"  -> AddEdge(Ev.a, Ev.b, Ev.noidx, Ev.nocommit)
    [] Ev.op = "add_edges" -> AddEdges({Pt(x) : x \in S2(Ev.S)}, Ev.noidx)
    [] Ev.op = "reindex_nodes" -> ReindexNodes
    [] Ev.op = "reindex_edges" -> ReindexEdges
    [] Ev.op = "commit" -> Commit
    [] Ev.op = "reopen" -> Reopen

TraceInit == /\ tid \in 1..Len(Runs) /\ i = 0 /\ verdict = [p \in PIDS |-> << >>]
             /\ MSInit([latlon |-> Runs[tid].latlon, crs |-> Runs[tid].crs])
TraceNext == /\ i < Len(Runs[tid].events)
             /\ Apply
             /\ i' = i + 1 /\ tid' = tid
             /\ verdict' = [p \in PIDS |->
                   IF p = "C11" THEN verdict[p] \o AllBadQ(Ev.q, 1, {"n", "e"})
                   ELSE IF verdict[p] # << >> THEN verdict[p]
                   ELSE LET v == StepVerdict(p) IN
                        IF v[1] = "ok" THEN verdict[p] ELSE << <<v[1], i + 1, v[2]>> >>]
TraceSpec == TraceInit /\ [][TraceNext]_tvars

\* total verdict, printed once per run when its last event has been consumed
Report == i = Len(Runs[tid].events) =>
            PrintT(ToJson([tid |-> Runs[tid].tid, n |-> i,
                           v |-> [p \in PIDS |-> [k \in 1..Len(verdict[p]) |->
                                                   [verdict |-> verdict[p][k][1], at |-> verdict[p][k][2],
                                                    missed |-> SetToSeq(verdict[p][k][3])]]]]))
=============================================================================
