SPECIFICATION VSpec
INVARIANT Report
CHECK_DEADLOCK FALSE
