"""C10 / C15 / C16 / C17 / C19 and the matcher half of C12: embedding invariance of the real matchers.
One abstract L-geo instance is run under several concretisations; TLC (spec/EmbedTrace.tla) evaluates
\\A r \\in Group : Obs(r) ~ Obs(base) on the recorded group."""
import json, os, random, subprocess, sys
from . import common, geom
from .common import run_tlc
from .geo import ANCHORS


def obs_of(ev, name, tol=0, rel=0, exact=True, tiefree_path=False, keep_lat=False, conc=None, hashseed=None):
    conc = conc if conc is not None else ev.get('_conc')
    return {'conc': conc.desc() if conc is not None else {}, 'hashseed': -1 if hashseed is None else hashseed, 'name': name, 'exc': ev['exc'], 'idx': ev['idx'], 'states': ev['states'], 'path': ev['path'],
            'lat': ev['lat'] if keep_lat else [], 'tol': tol, 'rel': rel, 'exact': exact, 'tiefree_path': tiefree_path}


def run_one(inst, cf, conc, ops=None, unique=False, full=False):
    evs, _ = geom.run_geo(inst, cf, conc, ops=ops, unique=unique, full=full)
    evs[-1]['_conc'] = conc
    return evs[-1]


def run_in_subprocess(jobs, hashseed):
    env = dict(os.environ)
    env['PYTHONHASHSEED'] = str(hashseed)
    env['PYTHONPATH'] = common.VERIF
    p = subprocess.run([sys.executable, '-m', 'harness.geoworker'], input=json.dumps(jobs), capture_output=True,
                       text=True, env=env, cwd=common.VERIF, timeout=3000)
    if p.returncode != 0:
        raise common.MachineryError(f'geoworker (hash seed {hashseed}) failed: {p.stderr[-1500:]}')
    return json.loads(p.stdout)


def rand_ops(rng, T, cf):
    ops = [('match', rng.randint(1, T) if rng.random() < 0.3 else T)]
    n, W = ops[0][1], cf['W']
    for _ in range(rng.randint(0, 2)):
        ch = (['extend'] if n < T else []) + (['widen'] if W else [])
        if not ch:
            break
        op = rng.choice(ch)
        if op == 'extend':
            n = rng.randint(n + 1, T)
            ops.append(('extend', n))
        else:
            W += rng.randint(1, 2)
            ops.append(('widen', W))
    if rng.random() < 0.15:
        ops = [('match', rng.randint(1, T))] + ops        # the matcher object was used for another (prefix) trace before
    return ops


def perm_relabel(rng, nodes, kind):
    if kind == 'zero':
        lab = list(range(len(nodes)))
    elif kind == 'big':
        lab = rng.sample(range(100, 100000), len(nodes))
    else:
        lab = list(nodes)
    rng.shuffle(lab)
    return {n: l for n, l in zip(nodes, lab)}


def classify_debug_diff(base_lat, dbg_lat):
    """where do the LIVE parts of the two lattices first differ (columns, then layers, in order)"""
    for c in range(max(len(base_lat), len(dbg_lat))):
        bc = base_lat[c] if c < len(base_lat) else []
        dc = dbg_lat[c] if c < len(dbg_lat) else []
        for k in range(max(len(bc), len(dc))):
            b = {(tuple(e['st']), e['lp']) for e in (bc[k] if k < len(bc) else []) if not e['stop']}
            d = {(tuple(e['st']), e['lp']) for e in (dc[k] if k < len(dc) else []) if not e['stop']}
            if b != d:
                bk = {x[0] for x in b}
                if k >= 1 and any(x[0] not in bk for x in d - b):
                    return 'extra-live-non-emitting-entry-under-DEBUG'
                return f'live-entries-differ-in-layer-{min(k, 1)}'
    return 'none'


def prim_group(gid, p, s1, s2, t1, t2):
    common.import_repo()
    from leuvenmapmatching.util import dist_euclidean as de
    frames = [('base', geom.Conc()), ('axis-swap', geom.Conc(swap=True)), ('translate', geom.Conc(off=(1024.0, -4096.0))),
              ('translate-1e5', geom.Conc(off=(131072.0, 65536.0)))] + [(f'scale-2^{k}', geom.Conc(k=k)) for k in (-14, -3, 4, 10)]
    runs = []
    for name, c in frames:
        P, S1, S2, T1, T2 = (c.loc(x) for x in (p, s1, s2, t1, t2))
        exc, vals = '', []
        try:
            d_ps, _, ti = de.distance_point_to_segment(P, S1, S2)
            d_ss = de.distance_segment_to_segment(S1, S2, T1, T2)[0]
            d_pp = de.distance(P, T1)
            vals = [d_ps / c.s, float(ti), d_ss / c.s, d_pp / c.s]
        except Exception as ex:
            exc = (type(ex).__name__ + ': ' + str(ex))[:200]
        path = [{'st': [j], 'obs': 0, 'ne': 0, 'lp': geom.fx(v), 'lpe': 0, 'lpne': 0, 'prev': [], 'stop': False, 'len': 1,
                 'delayed': 0, 'dist': 0} for j, v in enumerate(vals)]
        runs.append({'conc': c.desc(), 'hashseed': -1, 'name': name, 'exc': exc, 'idx': 0, 'states': [], 'path': path,
                     'lat': [], 'tol': 1, 'rel': 1, 'exact': False, 'tiefree_path': False})
    return {'gid': gid, 'kind': 'primitive', 'inst': {'p': p, 's': [s1, s2], 't': [t1, t2]}, 'cf': {}, 'ops': [],
            'runs': runs, 'check_robust': False, 'obs4': [], 'edges4': []}


def prim_groups(rng, n, gid0):
    """C16, anchor "geometry uses coordinate differences only": the planar primitives of one abstract configuration
    (quarter-grid point and two segments) evaluated in several frames (axis swap, translations by exactly representable
    offsets, scalings by powers of two); every value is mapped back to the abstract frame.  Values per frame:
    point-segment distance, relative position, segment-segment distance, point-point distance."""
    groups = []
    for i in range(n):
        G = rng.choice([2, 3, 4, 6])
        q = lambda: [rng.randint(-2, 4 * G + 2) / 4.0, rng.randint(-2, 4 * G + 2) / 4.0]
        p, s1, s2, t1, t2 = q(), q(), q(), q(), q()
        if rng.random() < 0.15:
            t2 = [t1[0] + (s2[0] - s1[0]), t1[1] + (s2[1] - s1[1])]       # parallel
        if rng.random() < 0.05:
            s2 = list(s1)                                                  # zero length
        groups.append(prim_group(gid0 + i, p, s1, s2, t1, t2))
    return groups


def validate(chk, pid, groups, label, batch=1500):
    """TLC validation of recorded groups, in batches (one JSON file / one TLC run per batch: a single file with tens of
    thousands of groups exhausts the JVM heap)"""
    for g in groups:
        g.setdefault('kind', 'match')
    v, nonrobust = {}, 0
    for b0 in range(0, max(len(groups), 1), batch):
        part = groups[b0:b0 + batch]
        if not part:
            break
        path = os.path.join(common.scratch(), f'embed_{label}_{b0}.json')
        with open(path, 'w') as f:
            json.dump(common.nonull({'pid': pid, 'groups': part}), f)
        r = run_tlc('EmbedTrace', 'EmbedTrace.cfg', workers=16, timeout=1800, env={'TRACE_FILE': path})
        chk.tlc(r, f'EmbedTrace: {len(part)} groups / {sum(len(g["runs"]) for g in part)} recorded runs ({label}, batch {b0 // batch + 1})')
        os.remove(path)
        v.update({x['gid']: x['verdict'] for x in r.json})
        nonrobust += sum(1 for x in r.json if not x['robust'])
        missing = [g['gid'] for g in part if g['gid'] not in v]
        if missing:
            raise common.MachineryError(f'no verdict for groups {missing[:5]}: {r.tail[-2000:]}')
    chk.count('robustness', skipped_nonrobust=nonrobust)
    return v


def make_groups(chk, pid, rng, n_groups, thorough):
    groups = []
    hash_jobs = {}      # hashseed -> list of (gid, name, job)
    for gi in range(n_groups):
        gid = gi + 1
        fam = None
        if pid in ('C10', 'C16') and gi % 4 == 0:
            fam = 'fork'
        elif pid == 'C10' and gi % 2 == 0:
            fam = 'street'
        if pid == 'C17':
            fam = rng.choice(['degenerate', 'degenerate', 'random', 'street'])
        inst = geom.gen_instance(rng, maxn=7 if thorough else 6, maxT=6 if thorough else 5, G=rng.choice([2, 3, 4]), family=fam)
        T = len(inst['path'])
        runs = []
        if pid == 'C10':
            cf = geom.gen_config(rng)
            if gi % 2 == 0:        # width pruning with exact ties (two-way streets, symmetric forks) is where listing order could leak in
                cf['W'] = rng.choice([1, 1, 2, 3])
                cf['max_dist_init'] = rng.choice([None, 1.0, 1.5])
                if gi % 4 == 0:
                    cf.update(max_dist=None, max_dist_init=0.6, min_prob_norm=None, W=rng.choice([1, 2, 2]),
                              ne=rng.random() < 0.25)
            ops = rand_ops(rng, T, cf) if gi % 4 else [('match', T)]
            strl = rng.random() < 0.5
            base_c = geom.Conc(strlabels=strl)
            job = {'inst': inst, 'cf': cf, 'conc': base_c.desc(), 'ops': ops}
            hash_jobs.setdefault(0, []).append((gid, 'base(hashseed=0)', dict(job, full=True), dict(tol=0, exact=True, keep_lat=True)))
            for hs in ([1, 2, 3] if not thorough else [1, 2, 3, 7, 11, 42, 99, 1234, 2 ** 31 - 1]):
                hash_jobs.setdefault(hs, []).append((gid, f'hashseed={hs}', job, dict(tol=0, exact=True)))
            # listing order of nodes and neighbours: canonical result must not change
            order = list(range(len(inst['nodes'])))
            rng.shuffle(order)
            for nm, c in (('node-order-shuffled', geom.Conc(order=order, strlabels=strl)),
                          ('neighbour-order-reversed', geom.Conc(nbr_order='rev', strlabels=strl)),
                          ('neighbour-order-sorted+node-order', geom.Conc(order=list(reversed(range(len(inst['nodes'])))), nbr_order='sorted', strlabels=strl))):
                hash_jobs.setdefault(0, []).append((gid, nm, {'inst': inst, 'cf': cf, 'conc': c.desc(), 'ops': ops},
                                                    dict(tol=0, exact=False, tiefree_path=False)))
            groups.append({'gid': gid, 'inst': inst, 'cf': cf, 'ops': ops, 'runs': [], 'want_lat': True,
                           'check_robust': False, 'obs4': [], 'edges4': []})
            continue
        if pid == 'C16':
            cf = geom.gen_config(rng)
            if gi % 4 == 0:
                cf.update(max_dist=None, max_dist_init=0.6, min_prob_norm=None, W=rng.choice([1, 2, 2]),
                          ne=rng.random() < 0.25)
            if gi % 4 == 2:
                # frame-sensitive geometry: observation segments against map edges (non-emitting states), no cut-offs
                # that could stop the match before the interesting part
                cf.update(ne=True, max_dist=None, max_dist_init=None, min_prob_norm=None)
            ops = rand_ops(rng, T, cf) if gi % 4 else [('match', T)]
            base = run_one(inst, cf, geom.Conc(), ops, full=True)
            runs.append(obs_of(base, 'base', keep_lat=True))
            concs = [('relabel-with-zero', geom.Conc(relabel=perm_relabel(rng, inst['nodes'], 'zero')), 0, 0),
                     ('relabel-big-ints', geom.Conc(relabel=perm_relabel(rng, inst['nodes'], 'big')), 0, 0),
                     ('relabel-strings', geom.Conc(relabel=perm_relabel(rng, inst['nodes'], 'perm'), strlabels=True), 0, 0),
                     ('node-order', geom.Conc(order=list(reversed(range(len(inst['nodes']))))), 0, 0),
                     ('axis-swap', geom.Conc(swap=True), 4, 1)]
            for k in ([-14, -3, 4, 10] if not thorough else [-18, -14, -6, -3, -1, 1, 4, 10, 20]):
                concs.append((f'scale-2^{k}', geom.Conc(k=k), 2, 1))
            if not cf['W']:
                concs.append(('translate', geom.Conc(off=(1024.0, -4096.0)), 4, 2))
                concs.append(('translate-1e7', geom.Conc(off=(10485760.0, 4194304.0)), 8, 4))
            for nm, c, tol, rel in concs:
                ev = run_one(inst, cf, c, ops)
                runs.append(obs_of(ev, nm, tol=tol, rel=rel, exact=False, tiefree_path=False))
        elif pid == 'C17':
            cf = geom.gen_config(rng)
            latlon = rng.random() < 0.4
            ll = {'s': rng.choice([5.0, 30.0, 200.0]), 'anchor': list(rng.choice(ANCHORS))} if latlon else None
            ops = rand_ops(rng, T, cf)
            base = run_one(inst, cf, geom.Conc(latlon=ll), ops)
            runs.append(obs_of(base, 'pairs' + ('-latlon' if latlon else '')))
            ev = run_one(inst, cf, geom.Conc(latlon=ll, triples=True), ops)
            runs.append(obs_of(ev, 'triples' + ('-latlon' if latlon else ''), tol=0, exact=True))
        elif pid == 'C19':
            cf = geom.gen_config(rng)
            ops = rand_ops(rng, T, cf)
            base = run_one(inst, cf, geom.Conc(), ops, full=True)
            runs.append(obs_of(base, 'default-logging'))
            ev = run_one(inst, cf, geom.Conc(debug=True), ops, full=True)
            runs.append(obs_of(ev, 'DEBUG-logging', tol=0, exact=True))
            runs[-1]['latdiff'] = classify_debug_diff(base['lat'], ev['lat'])
        elif pid == 'C15':
            cf = geom.gen_config(rng, allow=('nodes',))
            cf['avoid_goingback'] = False
            k = rng.choice([2, 5, 7])           # metres per grid unit: 4, 32, 128
            s = 2.0 ** k
            basem = run_one(inst, cf, geom.Conc(k=k))
            runs.append(obs_of(basem, 'planar'))
            for a in rng.sample(ANCHORS + [(-16.8, 179.9999), (52.0, -179.99995), (10.0, 180.0)], 2 if not thorough else 4):
                ev = run_one(inst, dict(cf), geom.Conc(latlon={'s': s, 'anchor': list(a)}))
                runs.append(obs_of(ev, f'latlon@{a}', tol=40, rel=300, exact=False))
        elif pid == 'C12':
            cf = geom.gen_config(rng, allow=('ne', 'W', 'cuts', 'goback'))
            cf['only_edges'] = True
            cf['max_dist_init'] = 1.0e6
            ops = rand_ops(rng, T, cf)
            inst['linked'] = []          # linked edges are not part of "the same nodes and directed edges"
            base = run_one(inst, cf, geom.Conc(backend='inmem'), ops)
            runs.append(obs_of(base, 'InMemMap'))
            ev = run_one(inst, cf, geom.Conc(backend='sqlite'), ops)
            runs.append(obs_of(ev, 'SqliteMap', tol=0, exact=False))
        g = {'gid': gid, 'inst': inst, 'cf': cf, 'ops': [list(o) for o in ops] if pid != 'C15' else [],
             'runs': runs, 'check_robust': False, 'obs4': [], 'edges4': []}
        if pid == 'C15' and not cf['only_edges']:
            g['check_robust'] = True
            g['obs4'] = [[int(round(4 * p[0])), int(round(4 * p[1]))] for p in inst['path']]
            co = inst['coord']
            g['edges4'] = [[4 * co[a][0], 4 * co[a][1], 4 * co[b][0], 4 * co[b][1]] for a, b in inst['edges']]
        groups.append(g)
    if pid == 'C10':
        by_gid = {g['gid']: g for g in groups}
        for hs, lst in sorted(hash_jobs.items()):
            res = run_in_subprocess([j for _, _, j, _ in lst], hs)
            for (gid, nm, job, kw), ev in zip(lst, res):
                by_gid[gid]['runs'].append(obs_of(ev, nm, conc=geom.Conc.from_desc(job['conc']), hashseed=hs, **kw))
        for g in groups:
            g.pop('want_lat', None)
    return groups


PID_RULE = {
    'C10': 'each instance is run in sub-processes under several PYTHONHASHSEED values (identical result and best path required) and under permuted node / neighbour listing orders (identical index and best probability; identical path when the base lattice has no ties)',
    'C16': 'each instance is run relabelled (ints incl. 0, large ints, strings), listed in another order, with swapped axes, scaled by 2^k together with all distance parameters and (without width) translated; index and best probability must agree, the path too when the base lattice has no ties',
    'C17': 'degenerate families (observations exactly on nodes / edges, repeated, collinear, zero-length roads) x both matchers x both metrics x cut-offs x non-emitting on/off: no exception; (lat, lon, time) triples must give exactly the result of pairs',
    'C19': 'each instance / history is run at the default logging level and with the package logger at DEBUG: returned states, index, best path and probabilities must be identical',
    'C15': 'each instance is matched on the plane (metres) and placed on the sphere at several anchors (local tangent plane), emitting only, no cut-offs, first-order transitions: same index, best probability within 0.3 % + 0.004',
    'C12': 'each instance is loaded into InMemMap and SqliteMap and matched with the same edge-state matcher and an unbounded initial radius: same index and best probability',
}


def design_level(chk, pid, thorough):
    """model checking of the embedding property on the specification itself + binding of the DEBUG model"""
    from . import lattice, absm
    sx = '_T' if thorough else ''
    if pid in ('C10', 'C16'):
        r = run_tlc('LatticeMC', 'LatticeMC_C10' + sx + '.cfg', workers=16, timeout=600 if thorough else 3000, seed=chk.seed + 1,
                    allow_timeout=thorough)
        chk.tlc(r, 'LatticeMC C10order: reversing every neighbour list leaves the canonical result unchanged (design level, emitting-only)'
                   + (' [time limit reached: partial exploration]' if r.timed_out else ''))
        if r.invariant_violated:
            raise common.MachineryError('design-level violation of listing-order invariance: ' + r.tail[-2500:])
        # with non-emitting states the same statement is not a theorem of the algorithm (finding F-ne-order); TLC is
        # asked for a counterexample on the specification (small scope: none; the larger thorough scope has one)
        rn = run_tlc('LatticeMC', 'LatticeMC_C10n' + sx + '.cfg', workers=16, timeout=900 if thorough else 600, seed=chk.seed + 1,
                     allow_violation=True, allow_timeout=True)
        chk.tlc(rn, 'LatticeMC C10orderNE: the same with non-emitting states (informational: F-ne-order at design level)')
        chk.cov['design_level_listing_order_with_non_emitting_states'] = (
            'counterexample found on the specification (F-ne-order)' if rn.invariant_violated
            else 'no counterexample within the explored scope' + (' (time limit reached)' if rn.timed_out else ''))
        return []
    if pid != 'C19':
        return []
    r = run_tlc('LatticeMC', 'LatticeMC_C19' + sx + '.cfg', workers=16, timeout=600 if thorough else 3000, seed=chk.seed + 1,
                allow_timeout=thorough)
    chk.tlc(r, 'LatticeMC C19all: with the logger at DEBUG the observables are those of the default level (design level)'
               + (' [time limit reached: partial exploration]' if r.timed_out else ''))
    if r.invariant_violated:
        raise common.MachineryError('design-level violation of C19all: ' + r.tail[-2500:])
    if thorough:
        rx = run_tlc('LatticeMC', 'LatticeMC_C19x' + sx + '.cfg', workers=16, timeout=600, seed=chk.seed + 1, allow_timeout=True)
        chk.tlc(rx, 'LatticeMC C19all on the non-emitting, node-state heavy scope (where the two repaired defects lived)'
                    + (' [time limit reached: partial exploration]' if rx.timed_out else ''))
        if rx.invariant_violated:
            raise common.MachineryError('design-level violation of C19all: ' + rx.tail[-2500:])
    # binding of the DEBUG model: TLC-enumerated behaviours with debug = TRUE replayed on the real BaseMatcher at DEBUG
    beh = lattice.behaviours_from_tlc(chk, 'LatticeMC_C19e' + sx + '.cfg', chk.seed + 1)
    runs, groups = [], []
    for i, (inst, cf0, ops, hist) in enumerate(beh):
        cf0 = dict(cf0, labels=['id', 'zero', 'str'][i % 3])
        rd = lattice.record_abs(i + 1, inst, dict(cf0, debug=True), ops, False, ())
        r0 = lattice.record_abs(i + 1, inst, dict(cf0, debug=False), ops, False, ())
        runs.append(rd)
        e0, ed = r0['events'][-1], rd['events'][-1]
        g = {'gid': 500000 + i, 'inst': inst.to_json(), 'abs': True, 'cf': cf0, 'ops': [list(o) for o in ops], 'check_robust': False, 'obs4': [], 'edges4': [],
             'runs': [obs_of(e0, 'default-logging'), obs_of(ed, 'DEBUG-logging', tol=0, exact=True)]}
        g['runs'][-1]['latdiff'] = classify_debug_diff(e0['lat'], ed['lat'])
        groups.append(g)
    v = lattice.validate(chk, runs, {'DRIFT'}, 'C19_debug_model')
    for run_ in runs:
        for x in v[run_['tid']].get('DRIFT', []):
            chk.spec_drift(f'DEBUG model, run {run_["tid"]}: {x["clause"]} at event {x["at"]}')
    chk.count('debug-model-binding', evaluations=len(runs), nontrivial=sum(1 for x in runs if any(e['stop'] for col in x['events'][-1]['lat'] for L in col for e in L)), traces=len(runs))
    return groups


ORDER_PERMS = ('node-order', 'neighbour-order')
RESULT_CLAUSES = ('best-probability-differs', 'matched-index-differs', 'empty-result-differs')


def order_sig(sig, clause, name, inst, cf, ops, runs):
    """Attribution of a listing-order dependence to the non-emitting search (finding F-ne-order): the failing run is a
    pure permutation of the listing order, non-emitting states are on, and with non-emitting states switched off the
    very same pair of runs agrees exactly (index and best probability)."""
    sig['listing_order_permutation'] = any(name.startswith(x) for x in ORDER_PERMS)
    sig['non_emitting_states'] = bool(cf.get('ne'))
    if not (sig['listing_order_permutation'] and sig['non_emitting_states'] and clause in RESULT_CLAUSES):
        return sig
    try:
        cf2 = dict(cf, ne=False)
        base = runs[0]
        perm = next(r for r in runs if r['name'] == name)
        o = [tuple(x) for x in ops] or None
        e0 = run_one(inst, cf2, geom.Conc.from_desc(dict(base['conc'])), o, full=False)
        e1 = run_one(inst, cf2, geom.Conc.from_desc(dict(perm['conc'])), o, full=False)
        b0 = e0['path'][-1]['lp'] if e0['path'] else 0
        b1 = e1['path'][-1]['lp'] if e1['path'] else 0
        sig['agrees_without_non_emitting_states'] = (e0['exc'] == '' and e1['exc'] == '' and e0['idx'] == e1['idx'] and b0 == b1)
    except Exception as ex:         # attribution failed: the case stays a violation
        sig['agrees_without_non_emitting_states'] = False
    return sig


def run(chk):
    pid, thorough = chk.pid, chk.tier == 'thorough'
    rng = random.Random(chk.seed * 15485863 + int(pid[1:]))
    extra_groups = design_level(chk, pid, thorough)
    n = {'C10': (420, 2000), 'C16': (1000, 4000), 'C17': (2600, 12000), 'C19': (900, 6000), 'C15': (300, 2000), 'C12': (300, 2500)}[pid][thorough]
    groups = make_groups(chk, pid, rng, n, thorough) + extra_groups
    if pid == 'C16':
        groups += prim_groups(rng, 20000 if thorough else 3000, 700000)
    verdicts = validate(chk, pid, groups, pid)
    nontriv = 0
    for g in groups:
        nontriv += any(len(r['path']) >= 2 for r in g['runs'])
        v = verdicts[g['gid']]
        if v:
            clause, _, name = v.partition(':')
            sig = {'clause': clause}
            if pid == 'C19':
                sig['first_lattice_difference'] = g['runs'][-1].get('latdiff', 'none')
            if pid in ('C10', 'C16') and not g.get('abs') and g.get('kind') != 'primitive':
                order_sig(sig, clause, name, g['inst'], g['cf'], g['ops'], g['runs'])
            if g.get('kind') == 'primitive':
                chk.violation(f'planar primitives of {g["inst"]}: {clause} under {name}',
                              {'kind': 'embed-prim', 'inst': g['inst'], 'verdict': v, 'pid': pid}, sig=sig)
                continue
            chk.violation(f'group {g["gid"]}: {clause} under {name}',
                          {'kind': 'embed', 'inst': g['inst'], 'cf': g['cf'], 'ops': g['ops'], 'verdict': v,
                           'pid': pid, 'abs': g.get('abs', False), 'check_robust': g.get('check_robust', False), 'obs4': g.get('obs4', []), 'edges4': g.get('edges4', []),
                           'runs': [{k: r[k] for k in ('name', 'exc', 'idx', 'states', 'conc', 'hashseed', 'tol', 'rel', 'exact', 'tiefree_path')} for r in g['runs']]},
                          sig=sig)
    chk.count('groups', evaluations=sum(len(g['runs']) for g in groups), nontrivial=nontriv,
              traces=sum(len(g['runs']) for g in groups), groups=len(groups))
    ex = next((g for g in groups if any(len(r['path']) >= 2 for r in g['runs'])), groups[0])
    chk.sample({'inst': ex['inst'], 'cf': ex['cf'], 'ops': ex['ops'],
                'runs': [{k: r[k] for k in ('name', 'idx', 'states')} for r in ex['runs']]})
    chk.rule(PID_RULE[pid] + '; non-trivial = group whose best path has at least two states')
    chk.assume('log-probabilities compared in fixed point 1e-4 (plus the stated tolerance class of the concretisation)')


def replay(pid, case):
    c = case['case']
    if c.get('kind') == 'embed-prim':
        i = c['inst']
        g = prim_group(1, i['p'], i['s'][0], i['s'][1], i['t'][0], i['t'][1])
        v = validate(common.Check(pid, 'quick', 0), pid, [g], 'replay')[1]
        if v:
            print(f'VIOLATION property={pid} replay=(given)   # {v}')
            return 1
        print('replay: group accepted')
        return 0
    if c.get('kind') != 'embed':
        from . import maps
        return maps.replay(pid, case)
    if c.get('abs'):
        from . import lattice, absm
        ainst = absm.inst_from_tlc(c['inst'])
        ops = [tuple(o) for o in c['ops']]
        rd = lattice.record_abs(1, ainst, dict(c['cf'], debug=True), ops, False, ())
        r0 = lattice.record_abs(1, ainst, dict(c['cf'], debug=False), ops, False, ())
        runs = [obs_of(r0['events'][-1], 'default-logging', keep_lat=True), obs_of(rd['events'][-1], 'DEBUG-logging', tol=0, exact=True, keep_lat=True)]
        return finish_replay(pid, c, runs, {})
    inst = c['inst']
    inst['coord'] = {int(k): v for k, v in inst['coord'].items()}
    ops = [tuple(o) for o in c['ops']] or None
    runs = []
    for i, r in enumerate(c['runs']):
        conc = geom.Conc.from_desc(r['conc'])
        full = (i == 0) or pid == 'C19'
        if r.get('hashseed', -1) >= 0:
            ev = run_in_subprocess([{'inst': inst, 'cf': c['cf'], 'conc': r['conc'], 'ops': c['ops'], 'full': full}], r['hashseed'])[0]
        else:
            ev = run_one(inst, c['cf'], conc, ops, full=full)
        runs.append(obs_of(ev, r['name'], tol=r['tol'], rel=r['rel'], exact=r['exact'], tiefree_path=r['tiefree_path'],
                           keep_lat=(i == 0 or pid == 'C19'), conc=conc, hashseed=r.get('hashseed', -1)))
    return finish_replay(pid, c, runs, inst)


def finish_replay(pid, c, runs, inst):
    chk = common.Check(pid, 'quick', 0)
    g = {'gid': 1, 'inst': inst, 'cf': c['cf'], 'ops': c['ops'], 'runs': runs, 'check_robust': c.get('check_robust', False),
         'obs4': c.get('obs4', []), 'edges4': c.get('edges4', [])}
    v = validate(chk, pid, [g], 'replay')[1]
    if v:
        clause, _, name = v.partition(':')
        sig = {'clause': clause}
        if pid == 'C19' and len(runs) == 2:
            sig['first_lattice_difference'] = classify_debug_diff(runs[0]['lat'] or [], runs[1]['lat'] or [])
        if pid in ('C10', 'C16') and inst:
            order_sig(sig, clause, name, inst, c['cf'], c['ops'], runs)
        k = chk.match_known(sig)
        if k is not None:
            print(f"KNOWN-FINDING: property={pid} {k['id']}: {k['what']}")
            return 0
        print(f'VIOLATION property={pid} replay=(given)   # {v}')
        return 1
    print('replay: group accepted')
    return 0
