-------------------------------- MODULE Rat --------------------------------
(* Rationals as <<num, den>> with den > 0.  TLC has 32-bit integers and no   *)
(* reals: every comparison is by cross-multiplication; callers keep the      *)
(* magnitudes small (TLC raises an error on overflow, it never wraps).       *)
EXTENDS Integers

RNum(r) == r[1]
RDen(r) == r[2]
RInt(n) == <<n, 1>>
RLess(a, b) == a[1] * b[2] < b[1] * a[2]
RLeq(a, b)  == a[1] * b[2] <= b[1] * a[2]
REq(a, b)   == a[1] * b[2] = b[1] * a[2]
RMin(a, b)  == IF RLess(b, a) THEN b ELSE a
RMax(a, b)  == IF RLess(a, b) THEN b ELSE a
RAdd(a, b)  == <<a[1] * b[2] + b[1] * a[2], a[2] * b[2]>>
RSub(a, b)  == <<a[1] * b[2] - b[1] * a[2], a[2] * b[2]>>
RMul(a, b)  == <<a[1] * b[1], a[2] * b[2]>>
RIsZero(a)  == a[1] = 0
Abs(x) == IF x < 0 THEN -x ELSE x
Sgn(x) == IF x > 0 THEN 1 ELSE IF x < 0 THEN -1 ELSE 0
Min2(x, y) == IF x < y THEN x ELSE y
Max2(x, y) == IF x < y THEN y ELSE x
\* least n >= 0 with n * n * b >= a   (a >= 0, b > 0): "ceil(sqrt(a/b))"
RECURSIVE CeilSqrtFrom(_, _, _)
CeilSqrtFrom(a, b, n) == IF n * n * b >= a THEN n ELSE CeilSqrtFrom(a, b, n + 1)
CeilSqrtRatio(a, b) == CeilSqrtFrom(a, b, 0)
=============================================================================
