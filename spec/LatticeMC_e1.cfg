CONSTANTS Graphs = {"line", "selfl"} T = 3 QE = {0, 1, 2, 3} QN = {0, 1, 2} NodeModes = {TRUE, FALSE} NEs = {FALSE, TRUE}
  Widths = {0, 1, 2} Cuts = {"none", "dist", "init", "prob", "both"} MaxOps = 3 SAMPLE = 3 Moves = {"m11", "m10"} EMIT = TRUE
SPECIFICATION Spec
INVARIANT EmitBehaviour
CHECK_DEADLOCK FALSE
