------------------------------ MODULE Lattice ------------------------------
(***************************************************************************)
(* The matcher core of leuvenmapmatching/matcher/base.py as implemented:   *)
(* a Viterbi lattice  lattice[obs].o[ne_depth][key] -> Matching  built by  *)
(* start candidates, emitting expansion, the non-emitting loop with its    *)
(* side tables and visited-node filter, width pruning with tie extension   *)
(* and threshold, the delayed / expand_now bookkeeping of widening and     *)
(* incremental extension, early-stop bookkeeping and backtracking.         *)
(*                                                                         *)
(* Written to be bound to the code: one operator per critical section      *)
(*   CreateStart      _create_start_nodes                                   *)
(*   Nxt / First      BaseMatching.next / first  (composition + stop rule)  *)
(*   Upsert / Better  LatticeColumn.upsert / BaseMatching.update            *)
(*   Prune            LatticeColumn.prune                                   *)
(*   MatchStates      _match_states                                         *)
(*   MatchNE          _match_non_emitting_states (+ _inner, _end)           *)
(*   InPrevNE         _node_in_prev_ne                                      *)
(*   Build            _build_node_path / _build_matching_path               *)
(*   DoMatch          match(path, expand)                                   *)
(* All of them are pure operators over an explicit lattice value, so that  *)
(* the model-checking wrapper (big steps = public calls) and the trace     *)
(* specification (recomputing what a recorded run should look like) share  *)
(* one definition.                                                         *)
(*                                                                         *)
(* The weights are abstract tables (instance `I`): the lattice logic does  *)
(* not know geometry or probability models.  Named deviations of the code  *)
(* that are modelled, not idealised away:                                  *)
(*   SelfNeighbour         a map may list a node as its own neighbour       *)
(*   StartCountIsLayers    nb_start_nodes = number of layers of column 0    *)
(*   RePostponeExpanded    prune() re-postpones already expanded entries    *)
(*   EdgeInteriorOnly      node+edge states: an emitting edge candidate at  *)
(*                         relative position 0 or 1 is not created          *)
(*   NEDistanceAdmission   a non-emitting candidate is admitted only if it  *)
(*                         is not farther than the emitting entry of the    *)
(*                         same state at the next observation               *)
(*   KeepStoppedUnderDebug when cf.debug (package logger at DEBUG) candidates *)
(*                         that are cut off or rejected are materialised as  *)
(*                         stopped entries, at exactly the sites of the code *)
(*   LayerOrderedLastChoice the last state is the best of the deepest       *)
(*                         non-empty layer, first of equals in layer order  *)
(***************************************************************************)
EXTENDS Integers, Sequences, FiniteSets, SequencesExt

NoW == 0            \* "no maximum lattice width"
NoThr == 999999     \* "no prune threshold" (None)
Inf == 999999       \* infinite distance cut-off
NoMin == <<-999999, 1>>  \* no minimum normalised log-probability

(***************************************************************************)
(* Instance I (tables) :                                                   *)
(*   nodes      set of node labels                                         *)
(*   nbrs       node -> sequence of neighbour labels, as the map lists them *)
(*              (nodes_nbrto; may contain the node itself)                  *)
(*   linked     edge -> sequence of linked (parallel) edges                 *)
(*   dE, lE     state -> obs -> distance / emission term (emitting)         *)
(*   dN, lN     state -> obs -> distance / emission term (non-emitting,     *)
(*              for the segment obs..obs+1)                                 *)
(*   tiE        edge -> obs -> 0 | 1 | 2  (relative position 0, inside, 1)  *)
(*   skipNE     state -> obs -> BOOLEAN  (restrained non-emitting states)   *)
(*   tr         [move, moveNE, back] abstract transition terms              *)
(* Configuration cf:                                                       *)
(*   onlyEdges, ne, W, maxDist, maxDistInit, minlp (rational), neLen,      *)
(*   neMax, secondOrder                                                    *)
(***************************************************************************)

IsEdge(st) == Len(st) = 2
StNodes(st) == {st[j] : j \in 1..Len(st)}
Key(e) == <<e.st, e.obs, e.ne>>

\* ---- the map's neighbour queries
NodesNbrTo(I, n) == I.nbrs[n]
EdgesNbrTo(I, e) == [j \in 1..Len(I.nbrs[e[2]]) |-> <<e[2], I.nbrs[e[2]][j]>>] \o I.linked[e]

\* ---- transition term (abstract): staying costs nothing, moving costs `move`
\*      (`moveNE` if either end is non-emitting); second order: going back to the
\*      state before the previous one costs `back` in addition.
Trans(I, cf, lat, m, st, prevNE, nextNE) ==
  IF m.st = st THEN 0
  ELSE (IF prevNE \/ nextNE THEN I.tr.moveNE ELSE I.tr.move)
       + (IF cf.secondOrder /\ m.prev # << >> /\ m.prev[1] = st THEN I.tr.back ELSE 0)

\* ---- stop rule: normalised log-probability lp/len below the minimum, or too far
DoStop(cf, lp, len, dist) == \/ lp * cf.minlp[2] < cf.minlp[1] * len
                             \/ dist > cf.maxDist

\* ---- BaseMatching.first
First(I, cf, st) ==
  LET lo == I.lE[st][0]  d == I.dE[st][0] IN
  IF DoStop(cf, lo, 1, d) /\ ~cf.debug THEN << >>
  ELSE << [st |-> st, obs |-> 0, ne |-> 0, lp |-> lo, lpe |-> lo, lpne |-> 0, prev |-> << >>,
           stop |-> DoStop(cf, lo, 1, d), len |-> 1, delayed |-> 0, dist |-> d] >>       \* KeepStoppedUnderDebug

\* ---- BaseMatching.next: a sequence of zero or one new entry
Nxt(I, cf, lat, m, st, obs, ne) ==
  IF ne = 0 /\ IsEdge(st) /\ ~cf.onlyEdges /\ I.tiE[st][obs] # 1 /\ ~cf.debug THEN << >>     \* EdgeInteriorOnly
  ELSE
  LET tooClose == ne = 0 /\ IsEdge(st) /\ ~cf.onlyEdges /\ I.tiE[st][obs] # 1
      d  == IF ne = 0 THEN I.dE[st][obs] ELSE I.dN[st][obs]
      lo == IF ne = 0 THEN I.lE[st][obs] ELSE I.lN[st][obs]
      lt == Trans(I, cf, lat, m, st, m.ne # 0, ne # 0)
      dl == lt + lo
      lpe  == IF ne = 0 THEN m.lp + dl ELSE m.lpe + cf.neLen
      lpne == IF ne = 0 THEN 0 ELSE (IF m.lpne < dl THEN m.lpne ELSE dl)
      lp   == IF ne = 0 THEN lpe ELSE lpe + lpne
      ln   == IF ne = 0 THEN m.len + 1 ELSE m.len
      stop == tooClose \/ DoStop(cf, lp, ln, d)
  IN IF stop /\ ~cf.debug THEN << >>
     ELSE << [st |-> st, obs |-> obs, ne |-> ne, lp |-> lp, lpe |-> lpe, lpne |-> lpne, prev |-> Key(m),
              stop |-> stop, len |-> ln, delayed |-> m.delayed, dist |-> d] >>                  \* KeepStoppedUnderDebug

\* ---- lattice access.  lat[c + 1] = column c = sequence of layers; layer k is lat[c+1][k+1]
NCols(lat) == Len(lat)
LayerOf(lat, c, k) == IF k + 1 <= Len(lat[c + 1]) THEN lat[c + 1][k + 1] ELSE << >>
IdxOf(L, key) == LET S == {j \in 1..Len(L) : Key(L[j]) = key} IN IF S = {} THEN 0 ELSE CHOOSE j \in S : TRUE
HasKey(lat, key) == IdxOf(LayerOf(lat, key[2], key[3]), key) # 0
EntryAt(lat, key) == LET L == LayerOf(lat, key[2], key[3]) IN L[IdxOf(L, key)]
RECURSIVE Pad(_, _)
Pad(col, k) == IF Len(col) >= k + 1 THEN col ELSE Pad(Append(col, << >>), k)     \* LatticeColumn.dict(k)
SetLayer(lat, c, k, L) == [lat EXCEPT ![c + 1] = [Pad(lat[c + 1], k) EXCEPT ![k + 1] = L]]
Live(L) == SelectSeq(L, LAMBDA e : ~e.stop)

\* ---- BaseMatching.update: strict improvement (first of equals wins), a live entry beats a stopped one
Better(old, new) == (old.stop /\ ~new.stop) \/ (old.stop = new.stop /\ old.lp < new.lp)
\* ---- LatticeColumn.upsert
\* A stopped entry (DEBUG only) that is replaced by a live one is removed and the live one appended: the order of
\* the live entries of a layer is then the same at every log level (OrderNeutralUnderDebug).
DropAt(L, j) == SubSeq(L, 1, j - 1) \o SubSeq(L, j + 1, Len(L))
Upsert(lat, m) ==
  LET L == LayerOf(lat, m.obs, m.ne)  j == IdxOf(L, Key(m)) IN
  SetLayer(lat, m.obs, m.ne,
           IF j = 0 THEN Append(L, m)
           ELSE IF L[j].stop /\ ~m.stop THEN Append(DropAt(L, j), m)
           ELSE IF Better(L[j], m) THEN [L EXCEPT ![j] = m] ELSE L)

\* plain dictionary assignment  c[key] = m  (replaces whatever is stored under the key, keeps its position)
Assign(lat, m) ==
  LET L == LayerOf(lat, m.obs, m.ne)  j == IdxOf(L, Key(m)) IN
  SetLayer(lat, m.obs, m.ne, IF j = 0 THEN Append(L, m) ELSE [L EXCEPT ![j] = m])

(***************************************************************************)
(* LatticeColumn.prune, stated declaratively (not as a sort):              *)
(* vW = the W-th largest log-probability among the live entries (with      *)
(* multiplicity); kept = live entries at least as probable as vW (tie      *)
(* extension) and not below the threshold; kept entries are activated      *)
(* (delayed := upto when larger), the other live ones are postponed        *)
(* (delayed := upto + 1 when not already later).  Returns <<lat', thr'>>.  *)
(***************************************************************************)
WthValue(vals, W) ==   \* vals: sequence of numbers, Len > W >= 1
  CHOOSE v \in {vals[j] : j \in 1..Len(vals)} :
     /\ Cardinality({j \in 1..Len(vals) : vals[j] > v}) < W
     /\ Cardinality({j \in 1..Len(vals) : vals[j] >= v}) >= W
Prune(lat, c, k, W, upto, thr) ==
  LET L == LayerOf(lat, c, k)  live == Live(L) IN
  IF W = NoW \/ Len(live) <= W THEN <<lat, thr>>
  ELSE LET vW == WthValue([j \in 1..Len(live) |-> live[j].lp], W)
           kept(e) == ~e.stop /\ e.lp >= vW /\ (thr = NoThr \/ e.lp >= thr)
           L2 == [j \in 1..Len(L) |->
                    IF L[j].stop THEN L[j]
                    ELSE IF kept(L[j]) THEN (IF L[j].delayed > upto THEN [L[j] EXCEPT !.delayed = upto] ELSE L[j])
                    ELSE (IF L[j].delayed <= upto THEN [L[j] EXCEPT !.delayed = upto + 1] ELSE L[j])]
           keptLps == {L[j].lp : j \in {j \in 1..Len(L) : kept(L[j])}}
       IN <<SetLayer(lat, c, k, L2),
            IF keptLps = {} THEN thr ELSE CHOOSE v \in keptLps : \A u \in keptLps : v <= u>>
PruneL(lat, c, k, W, upto) == Prune(lat, c, k, W, upto, NoThr)[1]

\* ---- _create_start_nodes: candidates within the initial radius, closest first (then by label)
StartStates(I, cf) ==
  LET S == IF cf.onlyEdges THEN {st \in DOMAIN I.dE : IsEdge(st)} ELSE {st \in DOMAIN I.dE : ~IsEdge(st)}
  IN {st \in S : I.dE[st][0] < cf.maxDistInit}
StLess(a, b) == \/ a[1] < b[1] \/ (a[1] = b[1] /\ Len(a) = 2 /\ a[2] < b[2])
CandLess(I, a, b) == \/ I.dE[a][0] < I.dE[b][0] \/ (I.dE[a][0] = I.dE[b][0] /\ StLess(a, b))
StartOrder(I, cf) == SetToSortSeq(StartStates(I, cf), LAMBDA a, b : CandLess(I, a, b))

RECURSIVE UpsertAll(_, _, _)
UpsertAll(lat, ms, j) == IF j > Len(ms) THEN lat ELSE UpsertAll(Upsert(lat, ms[j]), ms, j + 1)

EmptyLattice(n) == [c \in 1..n |-> << >>]
\* returns <<lat, nbStart>>
CreateStart(I, cf, lat, n, expandNow) ==
  IF expandNow > 0 THEN LET l2 == PruneL(lat, 0, 0, cf.W, expandNow) IN <<l2, Len(l2[1])>>   \* StartCountIsLayers
  ELSE LET cands == StartOrder(I, cf)
           l0 == EmptyLattice(n) IN
       IF Len(cands) = 0 THEN <<l0, 0>>
       ELSE LET firsts == FlattenSeq([j \in 1..Len(cands) |->
                                       IF IsEdge(cands[j]) /\ cands[j][1] = cands[j][2] THEN << >>
                                       ELSE First(I, cf, cands[j])])
                l1 == UpsertAll(l0, firsts, 1)
                l2 == PruneL(l1, 0, 0, cf.W, expandNow)
            IN <<l2, Len(l2[1])>>

\* ---- _match_states: the emitting proposals of entry m (column c - 1) for column c, in the code's order
EmitTargets(I, cf, m) ==
  IF ~IsEdge(m.st) THEN
     LET l1 == m.st[1]  nb == NodesNbrTo(I, l1) IN
     FlattenSeq([j \in 1..Len(nb) |->
        (IF ~cf.onlyEdges THEN << <<nb[j]>> >> ELSE << >>) \o (IF l1 # nb[j] THEN << <<l1, nb[j]>> >> ELSE << >>)])
  ELSE << m.st >> \o
       (IF ~cf.onlyEdges THEN << <<m.st[2]>> >>
        ELSE LET nb == EdgesNbrTo(I, m.st) IN
             SelectSeq(nb, LAMBDA f : m.st[2] # f[2] /\ m.st[1] # f[1]))

MatchStates(I, cf, lat, c, expandNow) ==
  LET prevs == SelectSeq(LayerOf(lat, c - 1, 0), LAMBDA e : ~e.stop /\ e.delayed = expandNow)
      cands == FlattenSeq([j \in 1..Len(prevs) |->
                 LET tg == EmitTargets(I, cf, prevs[j]) IN
                 FlattenSeq([q \in 1..Len(tg) |-> Nxt(I, cf, lat, prevs[j], tg[q], c, 0)])])
      l1 == UpsertAll(lat, cands, 1)
  IN PruneL(l1, c, 0, cf.W, expandNow)

\* ---- _node_in_prev_ne: was `label` visited on the chain of non-emitting states that leads to m
RECURSIVE InPrevNE(_, _, _)
InPrevNE(lat, m, label) ==
  IF m.prev = << >> THEN FALSE
  ELSE LET p == EntryAt(lat, m.prev) IN
       IF p.obs # m.obs THEN FALSE
       ELSE IF label \in StNodes(p.st) THEN TRUE
       ELSE IF p.ne = 0 THEN FALSE
       ELSE InPrevNE(lat, p, label)

(***************************************************************************)
(* The side table `lattice_best` of _match_non_emitting_states:            *)
(* state -> [d, lp, k].  It holds either a value snapshot (k = << >>) or   *)
(* an alias to a lattice entry (k = its key) whose log-probability may     *)
(* still improve in place while the table refers to it.                    *)
(***************************************************************************)
LbHas(lb, st) == st \in DOMAIN lb
LbLp(lat, b) == IF b.k # << >> THEN EntryAt(lat, b.k).lp ELSE b.lp
LbSet(lb, st, v) == [x \in (DOMAIN lb) \cup {st} |-> IF x = st THEN v ELSE lb[x]]
LbInit(lat, c) ==
  LET L == Live(LayerOf(lat, c, 0)) IN
  [st \in {L[j].st : j \in 1..Len(L)} |->
     LET e == L[CHOOSE j \in 1..Len(L) : L[j].st = st] IN [d |-> e.dist, lp |-> e.lp, k |-> << >>]]

\* non-emitting targets of entry m (same observation segment), before the visited filter
NETargets(I, cf, m) ==
  IF IsEdge(m.st) /\ cf.onlyEdges THEN
     SelectSeq(EdgesNbrTo(I, m.st), LAMBDA f : m.st[2] # f[2] /\ m.st[1] # f[2])
  ELSE IF ~IsEdge(m.st) /\ ~cf.onlyEdges THEN
     LET nb == NodesNbrTo(I, m.st[1]) IN
     [j \in 1..Len(SelectSeq(nb, LAMBDA x : x # m.st[1])) |-> <<SelectSeq(nb, LAMBDA x : x # m.st[1])[j]>>]
  ELSE << >>
\* targets for linking a non-emitting entry to the next observation
NEEndTargets(I, m) ==
  IF IsEdge(m.st) THEN SelectSeq(EdgesNbrTo(I, m.st), LAMBDA f : m.st[1] # f[2] /\ m.st[2] # f[2])
  ELSE LET nb == SelectSeq(NodesNbrTo(I, m.st[1]), LAMBDA x : x # m.st[1]) IN [j \in 1..Len(nb) |-> <<nb[j]>>]
LastNode(st) == st[Len(st)]

\* one proposal of the inner step: state S = <<lat, lb>>
NEInnerStep(I, cf, S, m, st, c, nb) ==
  LET lat == S[1]  lb == S[2] IN
  IF InPrevNE(lat, m, LastNode(st)) THEN S
  ELSE LET x == Nxt(I, cf, lat, m, st, c, nb) IN
       IF x = << >> THEN S
       ELSE LET e == x[1]  L == LayerOf(lat, c, nb)  j == IdxOf(L, Key(e)) IN
            IF IsEdge(st) THEN    \* edge states: NEDistanceAdmission with approx_leq, side table untouched
               IF LbHas(lb, st) /\ ~(e.dist <= lb[st].d) THEN S
               ELSE <<Upsert(lat, e), lb>>
            ELSE                  \* node states
               IF e.stop THEN (IF j = 0 THEN <<Upsert(lat, e), lb>> ELSE S)     \* kept for inspection only (DEBUG)
               ELSE IF j # 0 /\ ~L[j].stop THEN <<Upsert(lat, e), lb>>
               ELSE IF LbHas(lb, st) /\ ~(e.dist < lb[st].d) THEN
                       (IF cf.debug THEN <<Assign(lat, [e EXCEPT !.stop = TRUE]), lb>> ELSE S)   \* KeepStoppedUnderDebug
               ELSE <<Upsert(lat, e), LbSet(lb, st, [d |-> e.dist, lp |-> e.lp, k |-> Key(e)])>>

RECURSIVE NEInnerFold(_, _, _, _, _, _, _)
NEInnerFold(I, cf, S, props, c, nb, j) ==
  IF j > Len(props) THEN S
  ELSE NEInnerFold(I, cf, NEInnerStep(I, cf, S, props[j][1], props[j][2], c, nb), props, c, nb, j + 1)

NEEndStep(I, cf, S, m, st, c1) ==
  LET lat == S[1]  lb == S[2] IN
  IF InPrevNE(lat, m, LastNode(st)) THEN S
  ELSE LET x == Nxt(I, cf, lat, m, st, c1, 0) IN
       IF x = << >> THEN S
       ELSE LET e == x[1] IN
            IF e.stop THEN <<Upsert(lat, e), lb>>                                          \* kept for inspection only (DEBUG)
            ELSE IF LbHas(lb, st) /\ ~(e.lp > LbLp(lat, lb[st])) THEN
                 (IF cf.debug THEN <<Upsert(lat, [e EXCEPT !.stop = TRUE]), lb>> ELSE S)         \* KeepStoppedUnderDebug
            ELSE LET fresh == ~HasKey(lat, Key(e)) IN
                 <<Upsert(lat, e),
                   LbSet(lb, st, [d |-> e.dist, lp |-> e.lp, k |-> IF fresh THEN Key(e) ELSE << >>])>>
RECURSIVE NEEndFold(_, _, _, _, _, _)
NEEndFold(I, cf, S, props, c1, j) ==
  IF j > Len(props) THEN S
  ELSE NEEndFold(I, cf, NEEndStep(I, cf, S, props[j][1], props[j][2], c1), props, c1, j + 1)

Proposals(ms, tg(_)) ==    \* <<parent entry, target state>> in the code's iteration order
  FlattenSeq([j \in 1..Len(ms) |-> LET t == tg(ms[j]) IN [q \in 1..Len(t) |-> <<ms[j], t[q]>>]])

\* the while loop of _match_non_emitting_states; cur = the entries the next round starts from
RECURSIVE NELoop(_, _, _, _, _, _, _, _, _)
NELoop(I, cf, lat, lb, lne, cur, c, nb, st8) ==      \* st8 = <<expandNow, thr>>
  LET expandNow == st8[1]  thr == st8[2] IN
  IF Len(cur) = 0 \/ nb >= cf.neMax THEN lat
  ELSE LET nb1 == nb + 1
           latP == [lat EXCEPT ![c + 1] = Pad(lat[c + 1], nb1)]           \* dict(nb_ne) creates the layer
           srcs == SelectSeq(cur, LAMBDA e : ~e.stop /\ e.delayed = expandNow /\ e.st \notin lne)
           S1 == NEInnerFold(I, cf, <<latP, lb>>, Proposals(srcs, LAMBDA e : NETargets(I, cf, e)), c, nb1, 1)
           l2 == IF cf.W # NoW THEN Prune(S1[1], c, nb1, cf.W, expandNow, thr)[1] ELSE S1[1]
           cur2 == LayerOf(l2, c, nb1)
           ends == SelectSeq(cur2, LAMBDA e : ~e.stop /\ e.delayed <= expandNow)
           S2 == NEEndFold(I, cf, <<l2, S1[2]>>, Proposals(ends, LAMBDA e : NEEndTargets(I, e)), c + 1, 1)
           P3 == IF cf.W # NoW THEN Prune(S2[1], c + 1, 0, cf.W, expandNow, NoThr) ELSE <<S2[1], thr>>
       IN NELoop(I, cf, P3[1], S2[2], lne, LayerOf(P3[1], c, nb1), c, nb1,
                 <<expandNow, IF cf.W # NoW THEN P3[2] ELSE thr>>)

MatchNE(I, cf, lat, c, expandNow, expand) ==
  LET L0 == LayerOf(lat, c, 0)
      cur == IF expand THEN SelectSeq(L0, LAMBDA e : ~e.stop /\ e.delayed = expandNow)
             ELSE SelectSeq(L0, LAMBDA e : ~(e.stop \/ e.delayed > 0))
      nextL == Live(LayerOf(lat, c + 1, 0))
      lne == {nextL[j].st : j \in {j \in 1..Len(nextL) : I.skipNE[nextL[j].st][c + 1]}}
      l1 == NELoop(I, cf, lat, LbInit(lat, c + 1), lne, cur, c, 0, <<expandNow, NoThr>>)
  IN IF cf.W # NoW THEN PruneL(l1, c + 1, 0, cf.W, expandNow) ELSE l1

\* ---- the loop over observations 1..n-1 of match(); returns <<lat, earlyStop>> (earlyStop = -1: none)
RECURSIVE Columns(_, _, _, _, _, _, _)
Columns(I, cf, lat, c, n, expandNow, expand) ==
  IF c > n - 1 THEN <<lat, -1>>
  ELSE IF Len(Live(LayerOf(lat, c - 1, 0))) = 0 THEN <<lat, c - 1>>
  ELSE LET l1 == MatchStates(I, cf, lat, c, expandNow)
           l2 == IF cf.ne THEN MatchNE(I, cf, l1, c - 1, expandNow, expand) ELSE l1
           l3 == PruneL(l2, c, 0, cf.W, expandNow)
       IN Columns(I, cf, l3, c + 1, n, expandNow, expand)

\* ---- backtracking
AllEntries(col) == FlattenSeq(col)
BestLast(col) ==     \* LayerOrderedLastChoice; << >> if there is no live entry
  LET es == Live(AllEntries(col)) IN
  IF Len(es) = 0 THEN << >>
  ELSE LET maxne == CHOOSE k \in {es[j].ne : j \in 1..Len(es)} : \A j \in 1..Len(es) : es[j].ne <= k
           top == SelectSeq(es, LAMBDA e : e.ne = maxne)
           best == CHOOSE v \in {top[j].lp : j \in 1..Len(top)} : \A j \in 1..Len(top) : top[j].lp <= v
       IN << SelectSeq(top, LAMBDA e : e.lp = best)[1] >>
RECURSIVE ChainTo(_, _)
ChainTo(lat, e) == IF e.prev = << >> THEN <<e>> ELSE Append(ChainTo(lat, EntryAt(lat, e.prev)), e)
Build(lat, start) == LET b == BestLast(lat[start + 1]) IN IF b = << >> THEN << >> ELSE ChainTo(lat, b[1])

(***************************************************************************)
(* match(path[0..n-1], expand).  Matcher state M = [lat, n, expandNow,      *)
(* early]; the result R = [path (sequence of entries = lattice_best), idx]. *)
(* A fresh call has expand = FALSE.                                        *)
(***************************************************************************)
Result(lat, n, early0) ==
  LET lastLive == Len(Live(AllEntries(lat[n]))) > 0
      early == IF early0 = -1 /\ ~lastLive THEN n - 1 ELSE early0       \* "if self.early_stop_idx is None"
  IN IF early # -1 THEN (IF early = 0 THEN [path |-> << >>, idx |-> 0, early |-> early]
                         ELSE [path |-> Build(lat, early - 1), idx |-> early - 1, early |-> early])
     ELSE [path |-> Build(lat, n - 1), idx |-> n - 1, early |-> -1]

\* ---- scoring rounds.  rnd[key] = the call (0 = the fresh match, k = the k-th expansion call) in which the score of the
\* entry stored under key was last written: created, or replaced in place by a better candidate (_update_inner).  An
\* in-place replacement is always a strict improvement (or stopped -> live), so "written in this call" is exactly
\* "differs from what the lattice held before the call".  Used to state F-stale (LatticeProps.StaleRnd).
AllKeys(lat) == UNION { UNION { {Key(lat[c][k][j]) : j \in 1..Len(lat[c][k])} : k \in 1..Len(lat[c]) } : c \in 1..Len(lat) }
ScoreOf(e) == <<e.lp, e.lpe, e.lpne, e.prev, e.stop, e.len, e.dist>>
HasKeyS(lat, key) == key[2] + 1 <= Len(lat) /\ HasKey(lat, key)
Rounds(M, lat2, now, expand) ==
  [k \in AllKeys(lat2) |->
     IF expand /\ k \in DOMAIN M.rnd /\ HasKeyS(M.lat, k) /\ ScoreOf(EntryAt(M.lat, k)) = ScoreOf(EntryAt(lat2, k))
     THEN M.rnd[k] ELSE now]

DoMatch(I, cf, M, n, expand) ==
  LET now == IF expand THEN M.expandNow + 1 ELSE 0
      latX == IF expand /\ n > M.n
              THEN [c \in 1..n |->
                      IF c < M.n THEN M.lat[c]
                      ELSE IF c = M.n THEN [k \in 1..Len(M.lat[c]) |->
                                              [j \in 1..Len(M.lat[c][k]) |-> [M.lat[c][k][j] EXCEPT !.delayed = now]]]
                      ELSE << >>]
              ELSE M.lat
      cs == CreateStart(I, cf, latX, n, now)
  IN IF cs[2] = 0 THEN [M |-> [lat |-> cs[1], n |-> n, expandNow |-> now, early |-> M.early,
                                    rnd |-> Rounds(M, cs[1], now, expand)],
                        R |-> [path |-> << >>, idx |-> 0, early |-> -2]]
     ELSE LET cr == Columns(I, cf, cs[1], 1, n, now, expand)
              res == Result(cr[1], n, cr[2])
          IN [M |-> [lat |-> cr[1], n |-> n, expandNow |-> now, early |-> res.early,
                     rnd |-> Rounds(M, cr[1], now, expand)], R |-> res]

NewMatcher == [lat |-> << >>, n |-> 0, expandNow |-> 0, early |-> -1, rnd |-> << >>]
FreshMatch(I, cf, n) == DoMatch(I, cf, NewMatcher, n, FALSE)
\* canonical result used by C06 / C07 / C08: <<index, best emitting log-probability in column index>>
BestEmitting(lat, c) ==
  LET L == Live(LayerOf(lat, c, 0)) IN
  IF Len(L) = 0 THEN -Inf ELSE CHOOSE v \in {L[j].lp : j \in 1..Len(L)} : \A j \in 1..Len(L) : L[j].lp <= v
Canon(mr) == IF mr.R.path = << >> THEN <<-1, 0>> ELSE <<mr.R.idx, BestEmitting(mr.M.lat, mr.R.idx)>>
=============================================================================
