"""C11 / C12 / C18: map backends.  Histories of build operations are run on a real SqliteMap and a real
InMemMap; after every operation the query API is observed and logged; TLC (spec/MapTrace.tla, stepping
spec/MapStore.tla) validates every recorded run and computes the exact answers of the spatial queries."""
import contextlib, io, json, math, os, random, itertools
from fractions import Fraction as F
from . import common
from .common import run_tlc
from .geo import tangent_place, R_EARTH, ANCHORS

SC, PSC = 65536, 4096
BAD = 999999   # logged instead of a value that is not representable in the trace format


class Place:
    """How abstract grid coordinates are turned into the coordinates given to the library."""

    def __init__(self, mode, s=1.0, off=(0.0, 0.0), anchor=None):
        self.mode, self.s, self.off, self.anchor = mode, s, off, anchor
        self.latlon = (mode == 'latlon')

    def loc(self, g):
        if self.latlon:
            return tangent_place(g, self.s, self.anchor)
        return (self.off[0] + g[0] * self.s, self.off[1] + g[1] * self.s)

    def grid(self, loc):
        """inverse placement, as floats in grid units"""
        if self.latlon:
            lat0, lon0 = self.anchor
            return (math.radians(loc[0] - lat0) * R_EARTH / self.s,
                    math.radians(loc[1] - lon0) * R_EARTH * math.cos(math.radians(lat0)) / self.s)
        return ((loc[0] - self.off[0]) / self.s, (loc[1] - self.off[1]) / self.s)

    def gint(self, loc):
        g = self.grid(loc)
        out = []
        for v in g:
            r = round(v)
            out.append(int(r) if abs(v - r) <= (1e-6 if self.latlon else 1e-9) else BAD)
        return out

    def desc(self):
        return {'mode': self.mode, 's': self.s, 'off': list(self.off), 'anchor': list(self.anchor) if self.anchor else []}


def place_from(d):
    return Place(d['mode'], d['s'], tuple(d['off']), tuple(d['anchor']) if d['anchor'] else None)


def fx(v, scale):
    if v is None or not math.isfinite(v):
        return BAD * 1000
    r = int(round(v * scale))
    if abs(r) >= 2 ** 30:
        return BAD * 1000
    return r


class Backends:
    """A SqliteMap and an InMemMap driven by the same history."""

    def __init__(self, place, crs, name, d, linked=None):
        from leuvenmapmatching.map.sqlite import SqliteMap
        from leuvenmapmatching.map.inmem import InMemMap
        self.place, self.name, self.dir = place, name, d
        self.SqliteMap, self.InMemMap = SqliteMap, InMemMap
        kw = {}
        if crs is not None:
            kw = dict(crs_lonlat=crs[0], crs_xy=crs[1])
        self.sq = SqliteMap(name, use_latlon=place.latlon, dir=d, **kw)
        self.linked = linked or []
        le = None
        if self.linked:
            le = {}
            for e, fs in self.linked:
                le[tuple(e)] = [tuple(f) for f in fs]
        self.im = InMemMap(name, use_latlon=place.latlon, dir=d, linked_edges=le, **kw)
        self.ids = []
        self.edges = []

    def close(self):
        try:
            self.sq.db.close()
        except Exception:
            pass
        for suf in ('.sqlite', '.pkl'):
            try:
                os.remove(os.path.join(self.dir, self.name + suf))
            except OSError:
                pass

    def apply(self, ev):
        op, P = ev['op'], self.place
        if op == 'add_node':
            self.sq.add_node(ev['n'], P.loc(ev['p']), no_index=ev['noidx'], no_commit=ev['nocommit'])
            self.im.add_node(ev['n'], P.loc(ev['p']))
            self.ids.append(ev['n'])
        elif op == 'add_nodes':
            self.sq.add_nodes([(n, P.loc(p)) for n, p in ev['S']])
            for n, p in ev['S']:
                self.im.add_node(n, P.loc(p))
                self.ids.append(n)
        elif op == 'add_edge':
            self.sq.add_edge(ev['a'], ev['b'], no_index=ev['noidx'], no_commit=ev['nocommit'])
            self.im.add_edge(ev['a'], ev['b'])
            if (ev['a'], ev['b']) not in self.edges:
                self.edges.append((ev['a'], ev['b']))
        elif op == 'add_edges':
            self.sq.add_edges([tuple(e) for e in ev['S']], no_index=ev['noidx'])
            for a, b in ev['S']:
                self.im.add_edge(a, b)
                self.edges.append((a, b))
        elif op == 'reindex_nodes':
            self.sq.reindex_nodes()
        elif op == 'reindex_edges':
            self.sq.reindex_edges()
        elif op == 'commit':
            self.sq.db.commit()
        elif op == 'reopen':
            self.sq.db.close()
            self.sq = self.SqliteMap.from_file(os.path.join(self.dir, self.name + '.sqlite'))
            self.im.dump()
            self.im = self.InMemMap.from_pickle(os.path.join(self.dir, self.name + '.pkl'))
        else:
            raise common.MachineryError('unknown op ' + op)

    def observe(self, m, is_sq):
        P = self.place
        o = {'err': '', 'size': 0, 'labels': [], 'coords': [], 'nbrs': [], 'enbrs': [], 'allnodes': [], 'alledges': [],
             'bb': [], 'latlon': False, 'latlonfn': False, 'crs': ['', '']}
        try:
            o['size'] = int(m.size())
            labels = sorted(int(x) for x in m.labels())
            o['labels'] = labels
            o['coords'] = [[n] + P.gint(m.node_coordinates(n)) for n in labels]
            o['nbrs'] = [[n, sorted(int(l) for l, _ in m.nodes_nbrto(n))] for n in labels]
            for n, nb in zip(labels, m.nodes_nbrto(labels[0]) if labels else []):
                pass
            # neighbour coordinates must be the nodes' coordinates
            for n in labels:
                for l, loc in m.nodes_nbrto(n):
                    if P.gint(loc) != P.gint(m.node_coordinates(l)):
                        o['err'] = f'nodes_nbrto({n}) returns a wrong location for {l}'
            en = []
            lk = {tuple(e): fs for e, fs in self.linked} if not is_sq else {}
            for (a, b) in self.edges[:6]:
                if not is_sq and any(x not in m.graph for f in lk.get((a, b), []) for x in f):
                    continue        # a link to a node that has not been added (yet) is outside the map's contract
                if is_sq or (a in m.graph and b in m.graph):
                    try:
                        res = m.edges_nbrto((a, b))
                    except Exception as ex:
                        if is_sq and b not in labels:
                            continue
                        raise
                    en.append([a, b, sorted([int(l1), int(l2)] for l1, _, l2, _ in res)])
            o['enbrs'] = [x for x in en if x[0] in labels and x[1] in labels]
            an = list(m.all_nodes())
            o['allnodes'] = sorted(int(k) for k, _ in an)
            for k, loc in an:
                if P.gint(loc) != P.gint(m.node_coordinates(k)):
                    o['err'] = f'all_nodes returns a wrong location for {k}'
            ae = list(m.all_edges())
            o['alledges'] = sorted([int(a), int(b)] for a, _, b, _ in ae)
            if o['size'] > 0:
                bb = m.bb()
                if bb is not None and all(v is not None for v in bb):
                    o['bb'] = P.gint((bb[0], bb[1])) + P.gint((bb[2], bb[3]))
            o['latlon'] = bool(m.use_latlon)
            o['latlonfn'] = m.distance.__module__.endswith('dist_latlon')
            o['crs'] = [str(m.crs_lonlat), str(m.crs_xy)]
        except Exception as ex:
            o['err'] = repr(ex)[:200]
        return o

    def query(self, be, kind, p, r2, k, bb2=None):
        P = self.place
        m = self.sq if be == 'sq' else self.im
        q = {'be': be, 'kind': kind, 'p': list(p), 'r2': [r2.numerator, r2.denominator], 'k': k,
             'bb': list(bb2) if bb2 else [0, 0, 0, 0], 'res': [], 'exc': ''}
        try:
            if kind == 'box':
                lo, hi = P.loc((bb2[0] / 2, bb2[1] / 2)), P.loc((bb2[2] / 2, bb2[3] / 2))
                q['res'] = sorted(int(n) for n, _ in m.all_nodes(bb=(lo[0], lo[1], hi[0], hi[1])))
                return q
            r = math.sqrt(r2) * P.s
            loc = P.loc(p)
            kw = {} if k == 0 else {'max_elmt': k}
            if kind == 'n':
                for d, n, _ in m.nodes_closeto(loc, max_dist=r, **kw):
                    q['res'].append([int(n), fx((d / P.s) ** 2, SC)])
            else:
                for d, a, _, b, _, pi, ti in m.edges_closeto(loc, max_dist=r, **kw):
                    g = P.grid(pi)
                    q['res'].append([int(a), int(b), fx((d / P.s) ** 2, SC), fx(ti, SC), fx(g[0], PSC), fx(g[1], PSC)])
        except Exception as ex:
            q['exc'] = repr(ex)[:200]
        return q


R2S = [F(k * k, 16) for k in (2, 3, 4, 5, 6, 7, 8, 9, 10, 12, 14, 17, 20, 26)] + [F(2), F(5), F(8), F(10), F(13)]


def gen_history(rng, G, maxn, maxops, reopen_tail):
    """random valid build history (dict events without observations)"""
    pts = [(y, x) for y in range(G + 1) for x in range(G + 1)]
    rng.shuffle(pts)
    ids = rng.sample(range(1, 40), maxn)
    coord = {n: pts[i] for i, n in enumerate(ids)}
    have, edges, evs = [], set(), []
    chave, cedges = [], set()          # what is committed (a close discards the rest)
    nops = rng.randint(2, maxops)
    while len(evs) < nops:
        free = [n for n in ids if n not in have]
        choices = []
        if free:
            choices += ['add_node'] * 4 + ['add_nodes'] * 2
        if len(have) >= 2:
            choices += ['add_edge'] * 5 + ['add_edges'] * 2
        choices += ['reindex_nodes', 'reindex_edges', 'commit', 'reopen']
        op = rng.choice(choices)
        ev = {'op': op, 'n': 0, 'p': [0, 0], 'a': 0, 'b': 0, 'S': [], 'noidx': False, 'nocommit': False}
        commits = True
        if op == 'add_node':
            n = rng.choice(free)
            ev.update(n=n, p=list(coord[n]), noidx=rng.random() < 0.25, nocommit=rng.random() < 0.3)
            have.append(n)
            commits = not ev['nocommit']
        elif op == 'add_nodes':
            S = rng.sample(free, rng.randint(1, min(3, len(free))))
            ev['S'] = [[n, list(coord[n])] for n in S]
            have += S
        elif op == 'add_edge':
            a, b = rng.sample(have, 2)
            ev.update(a=a, b=b, noidx=rng.random() < 0.25, nocommit=rng.random() < 0.3)
            edges.add((a, b))
            commits = not ev['nocommit']
        elif op == 'add_edges':
            cand = [(a, b) for a in have for b in have if a != b and (a, b) not in edges]
            if not cand:
                continue
            S = rng.sample(cand, rng.randint(1, min(3, len(cand))))
            ev.update(S=[list(e) for e in S], noidx=rng.random() < 0.3)
            edges |= set(S)
        elif op == 'reopen':
            have, edges = list(chave), set(cedges)
            commits = False
        if commits:
            chave, cedges = list(have), set(edges)
        evs.append(ev)
    for _ in range(reopen_tail):
        evs.append({'op': 'reopen', 'n': 0, 'p': [0, 0], 'a': 0, 'b': 0, 'S': [], 'noidx': False, 'nocommit': False})
    return evs, coord


def clean_load_history(rng, G, nn, density):
    """the ordinary way of loading a map: all nodes, then all edges, indexed and committed"""
    pts = [(y, x) for y in range(G + 1) for x in range(G + 1)]
    rng.shuffle(pts)
    ids = rng.sample(range(1, 60), nn)
    coord = {n: pts[i] for i, n in enumerate(ids)}
    E = [(a, b) for a in ids for b in ids if a != b and rng.random() < density]
    blank = {'n': 0, 'p': [0, 0], 'a': 0, 'b': 0, 'S': [], 'noidx': False, 'nocommit': False}
    evs = []
    if rng.random() < 0.5:
        evs.append(dict(blank, op='add_nodes', S=[[n, list(coord[n])] for n in ids]))
    else:
        for n in ids:
            evs.append(dict(blank, op='add_node', n=n, p=list(coord[n])))
    if E and rng.random() < 0.5:
        evs.append(dict(blank, op='add_edges', S=[list(e) for e in E]))
    else:
        for a, b in E:
            evs.append(dict(blank, op='add_edge', a=a, b=b))
    return evs, coord


def record_run(tid, evs, place, crs, G, rng, nq, d, query_every=False, linked=None):
    """run one history on both backends; returns the run record for the trace file"""
    name = f'm{os.getpid()}_{tid}'
    B = Backends(place, crs, name, d, linked=linked)
    run = {'tid': tid, 'latlon': place.latlon, 'approx': place.latlon, 'imlinked': linked or [],
           'crs': list(crs) if crs else ['EPSG:4326', 'EPSG:3395'], 'place': place.desc(), 'events': []}
    try:
        with contextlib.redirect_stdout(io.StringIO()):
            for ei, ev in enumerate(evs):
                ev = dict(ev)
                try:
                    B.apply(ev)
                    ev['sq'] = B.observe(B.sq, True)
                    ev['im'] = B.observe(B.im, False)
                except common.MachineryError:
                    raise
                except Exception as ex:
                    ev['sq'] = B.observe(B.sq, True)
                    ev['sq']['err'] = 'operation raised ' + repr(ex)[:150]
                    ev['im'] = B.observe(B.im, False)
                qs = []
                last = ei == len(evs) - 1
                if ev['op'] == 'reopen' and run['events'] and run['events'][-1]['q']:
                    # the same questions again after the reopen (C18 compares the answers)
                    qs = [B.query(q['be'], q['kind'], tuple(q['p']), F(*q['r2']), q['k'], q['bb'])
                          for q in run['events'][-1]['q']]
                elif last or query_every or rng.random() < 0.3:
                    for _ in range(nq if last else max(1, nq // 3)):
                        be = rng.choice(['sq', 'im'])
                        kind = rng.choice(['n', 'e', 'e', 'box'])
                        if kind == 'box':
                            y0, x0 = rng.randint(-1, 2 * G), rng.randint(-1, 2 * G)
                            y1, x1 = rng.randint(y0, 2 * G + 1), rng.randint(x0, 2 * G + 1)
                            if place.latlon or place.mode == 'unit' and rng.random() < 0.3:
                                y0, x0, y1, x1 = y0 | 1, x0 | 1, y1 | 1, x1 | 1
                            qs.append(B.query(be, 'box', (0, 0), F(1), 0, (y0, x0, y1, x1)))
                        else:
                            p = (rng.randint(0, G), rng.randint(0, G))
                            qs.append(B.query(be, kind, p, rng.choice(R2S), rng.choice([0, 0, 0, 1, 2, 3])))
                ev['q'] = qs
                run['events'].append(ev)
    finally:
        B.close()
    return run


def validate(chk, runs, label):
    """write the batch, let TLC validate it, return {tid: verdict record}"""
    path = os.path.join(common.scratch(), f'maptrace_{label}.json')
    with open(path, 'w') as f:
        json.dump({'runs': runs}, f)
    r = run_tlc('MapTrace', 'MapTrace.cfg', workers=8, timeout=1800, env={'TRACE_FILE': path})
    chk.tlc(r, f'MapTrace validation of {len(runs)} recorded runs ({label})')
    os.remove(path)
    v = {x['tid']: x['v'][chk.pid] for x in r.json}
    missing = [run['tid'] for run in runs if run['tid'] not in v]
    if missing:
        raise common.MachineryError(f'no verdict for runs {missing[:5]} (trace not consumed): {r.tail[-1500:]}')
    return v


def failing_query(run, v):
    ev = run['events'][v['at'] - 1]
    parts = v['verdict'].split(':')
    if parts[-1].startswith('q'):
        return ev, ev['q'][int(parts[-1][1:]) - 1]
    return ev, None


def signature(run, v):
    """narrow description of a rejected run, used to match known findings"""
    ev, q = failing_query(run, v)
    parts = v['verdict'].split(':')
    sig = {'backend': parts[0], 'clause': parts[2] if q else parts[1], 'mode': run['place']['mode']}
    if q:
        sig['kind'] = q['kind']
        if q['kind'] == 'e' and ('misses' in sig['clause'] or 'drops-closer' in sig['clause']) and v.get('missed'):
            # are all missed edges such that their start node lies outside the box around the query point?
            P = place_from(run['place'])
            coords = {}
            for e in run['events'][:v['at']]:
                if e['op'] == 'add_node':
                    coords[e['n']] = e['p']
                for n, p in (e['S'] if e['op'] == 'add_nodes' else []):
                    coords[n] = p
            r2 = F(*q['r2'])
            # exact placements: strictly outside; sphere placements: outside or within 0.8 % of the boundary
            lim = r2 * F(124, 125) if run['approx'] else r2
            def out(v2):
                return v2 >= lim if run['approx'] else v2 > lim
            outside = all(out(F((coords[a][0] - q['p'][0]) ** 2)) or out(F((coords[a][1] - q['p'][1]) ** 2))
                          for a, b in v['missed'])
            sig['start_node_outside_box'] = outside
    return sig


def places(rng, tier):
    ps = [Place('unit'), Place('unit', 0.25, (3.0, -7.5)),
          Place('big', 0.125, (10485760.0, 4194304.0)), Place('big', 0.0625, (7340032.0, 12582912.0))]
    for a in ANCHORS[:3] if tier == 'quick' else ANCHORS:
        ps.append(Place('latlon', rng.choice([8.0, 40.0, 150.0]), anchor=a))
    return ps


def run(chk):
    pid, thorough = chk.pid, chk.tier == 'thorough'
    rng = random.Random(chk.seed * 7919 + {'C11': 1, 'C12': 2, 'C18': 3}[pid])
    # design level: exhaustive exploration of build histories of the MapStore specification
    r = run_tlc('MapStoreMC', 'MapStoreMC6.cfg' if thorough else 'MapStoreMC.cfg', workers=16, timeout=1800)
    if r.invariant_violated:
        raise common.MachineryError('MapStore design-level invariant violated: ' + r.tail)
    chk.tlc(r, 'MapStoreMC: every build history over 3 nodes to depth 5 (thorough 6): BackendsAgree, '
               'PropsSurvive, IndexWithinTable, ReopenOK')
    if pid in ('C12', 'C18'):
        # opportunistic: the same invariants as an INDUCTIVE invariant of the build-operation core, by Apalache
        a0 = common.run_apalache('MapStoreApa.tla', 'Init', 'IndInv', 0)
        a1 = common.run_apalache('MapStoreApa.tla', 'IndInit', 'IndInv', 1)
        chk.cov['apalache_inductive_invariant'] = {
            'module': 'spec/MapStoreApa.tla', 'IndInv': 'IndexWithin(w) /\\ IndexWithin(c) /\\ PropsSurvive /\\ (~lost => SameContent)',
            'base_case_Init_implies_IndInv': a0[0], 'step_IndInv_and_Next_implies_IndInv_prime': a1[0],
            'bound': 'arbitrary states generated with Gen(4): up to 4 elements per set / function; unbounded integer ids and coordinates',
            'seconds': round(a0[1] + a1[1], 1)}
    d = common.scratch()
    runs = []
    n_runs = {'C11': (160, 1500), 'C12': (160, 1500), 'C18': (160, 1500)}[pid][thorough]
    pls = places(rng, chk.tier)
    crss = [None, ('EPSG:4326', 'EPSG:31370'), ('EPSG:4258', 'EPSG:3395')]
    for t in range(n_runs):
        place = pls[t % len(pls)]
        G = rng.choice([3, 4, 5, 6])
        if pid == 'C11':
            evs, _ = clean_load_history(rng, G, rng.randint(2, 7), rng.choice([0.2, 0.4, 0.7]))
            run_ = record_run(t + 1, evs, place, rng.choice(crss), G, rng, 14, d)
        elif pid == 'C12':
            if t % 3 == 0:
                evs, _ = gen_history(rng, G, rng.randint(2, 6), 9, 0)
            else:
                evs, _ = clean_load_history(rng, G, rng.randint(2, 7), rng.choice([0.2, 0.4, 0.7]))
            run_ = record_run(t + 1, evs, place, rng.choice(crss), G, rng, 6, d, query_every=(t % 3 != 0))
        else:
            evs, _ = gen_history(rng, G, rng.randint(2, 6), 10, rng.randint(1, 3))
            linked = None
            if t % 3 == 1:      # an in-memory map constructed with linked (parallel) edges: the pickle must keep them
                es = [(e['a'], e['b']) for e in evs if e['op'] == 'add_edge'] + [tuple(x) for e in evs if e['op'] == 'add_edges' for x in e['S']]
                es = list(dict.fromkeys(es))
                if len(es) >= 2:
                    linked = []
                    for e in rng.sample(es, min(len(es), 2)):
                        fs = [list(f) for f in es if len({e[0], e[1], f[0], f[1]}) == 4][:2]
                        if fs:
                            linked.append([list(e), fs])
            run_ = record_run(t + 1, evs, place, rng.choice(crss), G, rng, 8, d, query_every=True, linked=linked)
        runs.append(run_)
    verdicts = validate(chk, runs, pid)
    nontriv = 0
    for run_ in runs:
        vs = verdicts[run_['tid']]
        ops = [e['op'] for e in run_['events']]
        if pid == 'C18':
            nontriv += ('reopen' in ops and len(set(ops)) >= 3)
        elif pid == 'C12':
            nontriv += len(run_['events'][-1]['sq']['alledges']) >= 1
        else:
            nontriv += any(len(q['res']) > 0 for e in run_['events'] for q in e['q'])
        for v in vs:
            sig = signature(run_, v)
            ev, q = failing_query(run_, v)
            chk.violation(f'map trace rejected at event {v["at"]} ({ev["op"]}): clause {v["verdict"]}',
                          {'run': run_, 'verdict': v}, sig=sig)
    nq = sum(len(e['q']) for run_ in runs for e in run_['events'])
    chk.count('histories', evaluations=len(runs), nontrivial=nontriv, traces=len(runs), queries=nq,
              events=sum(len(x['events']) for x in runs))
    small = min(runs, key=lambda x: len(json.dumps(x)))
    chk.sample({'place': small['place'], 'events': [{k: v for k, v in e.items() if k in ('op', 'n', 'p', 'a', 'b', 'S', 'noidx', 'nocommit')} for e in small['events']],
                'last_queries': small['events'][-1]['q'][:3]})
    chk.rule('seeded random histories of add_node/add_nodes/add_edge/add_edges (with no_index / no_commit), re-index, '
             'commit and close+reopen (SQLite file; InMemMap pickle) on both real backends, placed at unit scale, at '
             '~1e7 (projected metres) and on the sphere; all listing queries logged after every operation and '
             'spatial queries (nodes/edges close to, box listing; with and without max_elmt) logged and validated '
             'by TLC against MapStore/Geometry; non-trivial = ' +
             {'C11': 'run with at least one non-empty spatial answer', 'C12': 'map with at least one edge',
              'C18': 'history with a reopen and >= 3 different operations'}[pid])
    if pid == 'C12':
        # matcher half: the same edge-state matcher on both backends (embedding group, validated by EmbedTrace)
        from . import embed
        embed.run(chk)
    chk.assume('rtree / pyproj are not installed: InMemMap index paths and CRS transforms are not exercised')
    chk.assume('edges only between existing, distinct nodes; fresh node ids (the documented way of building maps)')
    chk.assume('lat-lon placement: membership decided only outside a 0.4 % band around the radius; distances within 0.8 %')


def replay(pid, case):
    if case['case'].get('kind') == 'embed':
        from . import embed
        return embed.replay(pid, case)
    chk = common.Check(pid, 'quick', 0)
    run_ = case['case']['run']
    place = place_from(run_['place'])
    evs = [{k: v for k, v in e.items() if k not in ('sq', 'im', 'q')} for e in run_['events']]
    # re-run the same history and the same queries
    B = Backends(place, tuple(run_['crs']), 'replay%d' % os.getpid(), common.scratch(), linked=run_.get('imlinked') or None)
    new = dict(run_, events=[])
    new.setdefault('imlinked', [])          # replays recorded before linked edges entered the map histories
    try:
        with contextlib.redirect_stdout(io.StringIO()):
            for ev0, ev in zip(run_['events'], evs):
                ev = dict(ev)
                try:
                    B.apply(ev)
                    ev['sq'] = B.observe(B.sq, True)
                    ev['im'] = B.observe(B.im, False)
                except Exception as ex:
                    ev['sq'] = B.observe(B.sq, True)
                    ev['sq']['err'] = 'operation raised ' + repr(ex)[:150]
                    ev['im'] = B.observe(B.im, False)
                ev['q'] = [B.query(q['be'], q['kind'], tuple(q['p']), F(*q['r2']), q['k'], q['bb']) for q in ev0['q']]
                new['events'].append(ev)
    finally:
        B.close()
    vs = validate(chk, [new], 'replay')[new['tid']]
    for v in vs:
        k = chk.match_known(signature(new, v))
        if k is not None:
            print(f"KNOWN-FINDING: property={pid} {k['id']}: {k['what']}")
    bad = [v for v in vs if chk.match_known(signature(new, v)) is None]
    for v in bad:
        print(f'VIOLATION property={pid} replay=(given)   # clause {v["verdict"]} at event {v["at"]}')
    if bad:
        return 1
    print('replay: trace accepted')
    return 0
