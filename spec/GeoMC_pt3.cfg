CONSTANTS MODE = "pt" N = 3 K = 6 EMIT = TRUE
INIT Init
NEXT Next
INVARIANT Lemmas
INVARIANT Emit
