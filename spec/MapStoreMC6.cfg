CONSTANTS NodeIds = {1, 2, 3} MaxSteps = 6
CONSTANT Coord <- CoordDef
SPECIFICATION Spec
INVARIANT BackendsAgree
INVARIANT PropsSurvive
INVARIANT IndexWithinTable
PROPERTY ReopenOK
CHECK_DEADLOCK FALSE
